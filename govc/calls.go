package main

import (
	"fmt"
	"go/token"
	"go/types"
	"sort"
	"strings"

	"golang.org/x/tools/go/ssa"
)

var noopPkgs = []string{
	"github.com/trustbloc/logutil-go/", "go.uber.org/zap", repoModule + "/pkg/internal/log",
}

func isNoopCallee(path string) bool {
	for _, p := range noopPkgs {
		if strings.HasPrefix(path, p) {
			return true
		}
	}
	return false
}

func (vc *VC) call(ins ssa.Instruction, c *ssa.CallCommon, v *ssa.Call) {
	pos := ins.Pos()
	// builtins
	if b, ok := c.Value.(*ssa.Builtin); ok {
		vc.builtin(b, c, v, pos)
		return
	}
	var args []Term
	var key string
	var sig *types.Signature
	var paramNames []string
	calleePkg := ""
	var staticFn, cellFn *ssa.Function
	if c.IsInvoke() {
		recv := vc.val(c.Value)
		vc.safe("nil-iface", fmt.Sprintf("(not (= %s 0))", recv.S), pos)
		args = append(args, recv)
		for _, a := range c.Args {
			args = append(args, vc.val(a))
		}
		sig = c.Method.Type().(*types.Signature)
		paramNames = append(paramNames, "this")
		for i := 0; i < sig.Params().Len(); i++ {
			paramNames = append(paramNames, sig.Params().At(i).Name())
		}
		key = vc.ifaceKey(c.Value.Type(), c.Method)
		if c.Method.Pkg() != nil {
			calleePkg = c.Method.Pkg().Path()
		}
	} else {
		for _, a := range c.Args {
			args = append(args, vc.val(a))
		}
		staticFn = c.StaticCallee()
		if staticFn != nil {
			key = funcKey(staticFn)
			sig = staticFn.Signature
			if staticFn.Pkg != nil {
				calleePkg = staticFn.Pkg.Pkg.Path()
			} else if o := staticFn.Object(); o != nil && o.Pkg() != nil {
				calleePkg = o.Pkg().Path()
			}
			for _, p := range staticFn.Params {
				paramNames = append(paramNames, p.Name())
			}
			if len(staticFn.Params) == 0 { // external function without body: names from signature
				if sig.Recv() != nil {
					paramNames = append(paramNames, "this")
				}
				for i := 0; i < sig.Params().Len(); i++ {
					paramNames = append(paramNames, sig.Params().At(i).Name())
				}
			}
		} else {
			sig, _ = c.Value.Type().Underlying().(*types.Signature)
			// function value taken from a struct field (e.g. result.Ack): contract keyed like an interface method
			var ownerT types.Type
			fieldIdx := -1
			if fl, ok := c.Value.(*ssa.Field); ok {
				ownerT, fieldIdx = fl.X.Type(), fl.Field
			} else if ld, ok := c.Value.(*ssa.UnOp); ok && ld.Op == token.MUL {
				if fa, ok := ld.X.(*ssa.FieldAddr); ok {
					ownerT, fieldIdx = fa.X.Type().Underlying().(*types.Pointer).Elem(), fa.Field
				}
			}
			if ownerT != nil {
				if n, ok := ownerT.(*types.Named); ok && n.Obj().Pkg() != nil {
					st := n.Underlying().(*types.Struct)
					key = n.Obj().Pkg().Path() + "." + n.Obj().Name() + "." + st.Field(fieldIdx).Name()
					calleePkg = n.Obj().Pkg().Path()
					for i := 0; i < sig.Params().Len(); i++ {
						paramNames = append(paramNames, sig.Params().At(i).Name())
					}
				}
			}
			if cf := vc.cellCallee(c.Value); cf != nil && key == "" {
				// a call through a captured variable that holds exactly one func literal
				cellFn = cf
				key = funcKey(cf)
				sig = cf.Signature
				if cf.Pkg != nil {
					calleePkg = cf.Pkg.Pkg.Path()
				}
				paramNames = nil
				for _, p := range cf.Params {
					paramNames = append(paramNames, p.Name())
				}
				vc.trusted["closure variables assigned exactly once (a func literal) are assumed assigned before they are called"] = true
			}
			if key == "" && vc.dynamicDispatch(c, v, sig, args, pos) {
				return
			}
			if key != "" && cellFn == nil && vc.eng.specFor(key) == nil {
				key = ""
				calleePkg = ""
			}
		}
	}
	if isNoopCallee(calleePkg) {
		vc.bindResults(v, sig, nil)
		return
	}
	if staticFn != nil && (key == "sort.Slice" || key == "sort.SliceStable") {
		if vc.sortSlice(c, key, pos) {
			return
		}
	}
	var spec *FuncSpec
	if key != "" {
		spec = vc.eng.specFor(key)
		if spec == nil && c.IsInvoke() {
			// wildcard contract for every method of an interface: "iface pkg.Iface.*"
			if k := strings.LastIndex(key, "."); k >= 0 {
				spec = vc.eng.DB.Funcs[key[:k]+".*"]
			}
		}
		if spec == nil && c.IsInvoke() {
			// method declared in an embedded interface
			if recvT := c.Method.Type().(*types.Signature).Recv(); recvT != nil {
				if n, ok := recvT.Type().(*types.Named); ok && n.Obj().Pkg() != nil {
					spec = vc.eng.DB.Funcs[n.Obj().Pkg().Path()+"."+n.Obj().Name()+"."+c.Method.Name()]
				}
			}
		}
	}
	// every call may allocate
	oldTop := vc.getComp("top", "Int")
	preHeap := vc.heap.clone()
	if spec == nil && staticFn != nil && strings.HasPrefix(calleePkg, repoModule) {
		if vc.inlineCall(staticFn, args, v) {
			return
		}
	}
	if spec == nil && cellFn != nil {
		if vc.inlineCall(cellFn, args, v) {
			return
		}
	}
	if spec == nil {
		dfn := staticFn
		if dfn == nil {
			dfn = cellFn
		}
		vc.defaultEffect(c, key, calleePkg, dfn)
		nt := vc.havocComp("top", "Int")
		vc.assume(fmt.Sprintf("(>= %s %s)", nt, oldTop))
		res := vc.bindResults(v, sig, nil)
		_ = res
		return
	}
	spec.Bound = true
	if spec.Trusted {
		vc.trusted["assumed contract: "+shortKey(spec.Key)] = true
	}
	env := &SpecEnv{vc: vc, pkg: vc.eng.TPkgs[spec.Pkg], vars: map[string]Term{}, heap: vc.heap, old: vc.heap}
	if cellFn != nil || (staticFn != nil && staticFn.Parent() != nil && rootFn(staticFn) == rootFn(vc.fn)) {
		env.cells = true // callee of the same closure tree: its contract may name the shared captured variables
	}
	if env.pkg == nil {
		if calleePkg != "" {
			env.pkg = vc.eng.TPkgs[calleePkg]
		}
		if env.pkg == nil {
			env.pkg = vc.pkg
		}
	}
	names := paramNames
	if len(spec.Params) > 0 {
		names = spec.Params
		if len(names) == len(args)-1 && (c.IsInvoke() || (sig != nil && sig.Recv() != nil)) {
			names = append([]string{"this"}, names...)
		}
	}
	for i, a := range args {
		if i < len(names) && names[i] != "" && names[i] != "_" {
			env.vars[names[i]] = a
		}
	}
	// the callee's parameters may have been renamed since its contract was written / the claims were recorded: the old
	// names (same declaration positions, see locals.go) denote the same arguments
	if cf := staticFn; cf != nil || cellFn != nil {
		if cf == nil {
			cf = cellFn
		}
		if rec, ok := vc.eng.recorded[shortKey(funcKey(cf))]; ok {
			for old, now := range renameMap(rec, localNames(cf)) {
				if t, ok := env.vars[now]; ok && old != now {
					if _, taken := env.vars[old]; !taken {
						env.vars[old] = t
					}
				}
			}
		}
	}
	// a closure called directly: its captured variables are visible to its contract by name
	if mc, ok := c.Value.(*ssa.MakeClosure); ok && staticFn != nil {
		for k, fv := range staticFn.FreeVars {
			if k >= len(mc.Bindings) {
				break
			}
			bv := mc.Bindings[k]
			bt := vc.val(bv)
			ad := vc.addrs[bv]
			if ad == nil {
				ad = vc.pointeeAddr(bt.S, bv.Type())
				ad.space = vc.spaceOf(bv)
			}
			el := bv.Type().Underlying().(*types.Pointer).Elem()
			if isStruct(el) {
				env.vars[fv.Name()] = Term{S: bt.S, Sort: "Int", T: el, Addr: true, Space: ad.space}
			} else {
				env.vars[fv.Name()] = Term{S: vc.loadAddrIn(vc.heap, ad), Sort: vc.sortOf(el), T: el}
			}
		}
	}
	sk := shortKey(key)
	if k := strings.LastIndex(sk, "."); k >= 0 {
		sk = sk[k+1:]
	}
	for i, r := range spec.Requires {
		t, err := env.evalBool(r.Expr)
		if err != nil {
			vc.fail("call %s requires#%d: %v", shortKey(key), i+1, err)
		}
		vc.oblige(fmt.Sprintf("call[%s]/requires#%d", sk, i+1), "requires", t, r.Text, pos)
		vc.assume(t)
	}
	// intermediate assertions of the caller at this call site (atcall clauses of the function being verified)
	if vc.spec != nil && !vc.inl && vc.spec.AtCall != nil {
		if as := vc.spec.AtCall[sk]; len(as) > 0 && v != nil && v.Block() != nil {
			cenv := vc.entryEnv()
			cenv.heap = vc.heap
			blk := v.Block()
			lim := -1
			for i, ins := range blk.Instrs {
				if ins == ssa.Instruction(v) {
					lim = i
				}
			}
			base := cenv.resolve
			h := vc.heap
			cenv.resolve = func(name string) (Term, bool) {
				if t, ok := env.vars[name]; ok { // callee parameter names denote the arguments
					return t, true
				}
				if strings.HasSuffix(name, "_0") { // <param>_0: the value of a parameter at function entry
					pn := strings.TrimSuffix(name, "_0")
					if to, ok := vc.renames[pn]; ok { // renamed parameter (locals.go)
						pn = to
					}
					for _, p := range vc.fn.Params {
						if p.Name() == pn {
							return vc.vals[p], true
						}
					}
				}
				if strings.HasPrefix(name, "arg") { // arg0, arg1, ...: the call's arguments by position (receiver first)
					var n int
					if _, err := fmt.Sscanf(name, "arg%d", &n); err == nil && n >= 0 && n < len(args) && fmt.Sprintf("arg%d", n) == name {
						return args[n], true
					}
				}
				if name == "_k" { // index of the element the enclosing loop is processing at this call
					if li := vc.innermostLoopOf(blk); li != nil {
						if k, ok := vc.loopIndexTerm(li); ok {
							return Term{S: k, Sort: "Int", T: types.Typ[types.Int]}, true
						}
					}
					return Term{}, false
				}
				if t, ok := vc.resolveLocalBefore(name, blk, lim, h, nil); ok {
					return t, true
				}
				if base != nil {
					return base(name)
				}
				return Term{}, false
			}
			// inside the body a parameter name denotes the current value of the variable
			for _, p := range vc.fn.Params {
				if t, ok := vc.resolveLocalBefore(p.Name(), blk, lim, h, nil); ok {
					cenv.vars[p.Name()] = t
				}
			}
			for i, a := range as {
				t, err := cenv.evalBool(a.Expr)
				if err != nil {
					vc.fail("%s atcall %s #%d: %v", shortKey(vc.key), sk, i+1, err)
				}
				vc.oblige(fmt.Sprintf("call[%s]/assert#%d", sk, i+1), "assert", t, a.Text, pos)
				vc.assume(t)
			}
		}
	}
	// modifies
	for _, m := range spec.Modifies {
		if m.Text == "*" {
			vc.havocAll()
			continue
		}
		if m.Text == "pointees" { // whatever the pointer arguments (also boxed ones) point to
			for _, a := range c.Args {
				av := a
				if mi, ok := a.(*ssa.MakeInterface); ok {
					av = mi.X
				}
				if pt, ok := av.Type().Underlying().(*types.Pointer); ok {
					vc.havocPointee(vc.val(av).S, pt.Elem())
				}
			}
			continue
		}
		// l-values denote locations of the pre-call state (an earlier clause may already have havocked what a later
		// one reads)
		menv := *env
		menv.heap = preHeap
		if err := vc.havocLvalue(&menv, m.Expr); err != nil {
			vc.fail("call %s modifies %s: %v", shortKey(key), m.Text, err)
		}
	}
	for _, gs := range spec.Sets {
		if err := vc.setGhost(env, gs); err != nil {
			vc.fail("call %s sets %s: %v", shortKey(key), gs.Name, err)
		}
	}
	nt := vc.havocComp("top", "Int")
	vc.assume(fmt.Sprintf("(>= %s %s)", nt, oldTop))
	var rnames []string
	if sig != nil {
		rnames = resultNamesOf(sig, spec)
	}
	res := vc.bindResults(v, sig, rnames)
	post := &SpecEnv{vc: vc, pkg: env.pkg, vars: env.vars, heap: vc.heap, old: preHeap, cells: env.cells}
	for i, r := range res {
		post.vars[rnames[i]] = r
		if len(res) == 1 {
			post.vars["result"] = r
		}
	}
	for i, en := range spec.Ensures {
		t, err := post.evalBool(en.Expr)
		if err != nil {
			vc.fail("call %s ensures#%d: %v", shortKey(key), i+1, err)
		}
		vc.assume(t)
	}
	for i, en := range spec.Assumed {
		t, err := post.evalBool(en.Expr)
		if err != nil {
			vc.fail("call %s assumes#%d: %v", shortKey(key), i+1, err)
		}
		vc.assume(t)
		vc.trusted["assumed postcondition of "+shortKey(spec.Key)+": "+en.Text] = true
	}
}

func resultNamesOf(sig *types.Signature, spec *FuncSpec) []string {
	n := sig.Results().Len()
	names := make([]string, n)
	if spec != nil && len(spec.Results) == n {
		copy(names, spec.Results)
		return names
	}
	for i := 0; i < n; i++ {
		names[i] = sig.Results().At(i).Name()
		if names[i] == "" || names[i] == "_" {
			if n == 1 {
				names[i] = "result"
			} else {
				names[i] = fmt.Sprintf("r%d", i)
			}
			if i == n-1 && types.Identical(sig.Results().At(i).Type(), types.Universe.Lookup("error").Type()) {
				names[i] = "err"
			}
		}
	}
	return names
}

func (vc *VC) ifaceKey(t types.Type, m *types.Func) string {
	if n, ok := t.(*types.Named); ok && n.Obj().Pkg() != nil {
		return n.Obj().Pkg().Path() + "." + n.Obj().Name() + "." + m.Name()
	}
	if n, ok := t.(*types.Named); ok { // error
		return n.Obj().Name() + "." + m.Name()
	}
	return "iface." + m.Name()
}

// bindResults creates fresh result symbols for a call.
func (vc *VC) bindResults(v *ssa.Call, sig *types.Signature, names []string) []Term {
	if sig == nil || sig.Results().Len() == 0 {
		return nil
	}
	var res []Term
	for i := 0; i < sig.Results().Len(); i++ {
		res = append(res, vc.havocOf(sig.Results().At(i).Type(), "call"))
	}
	if v != nil {
		if len(res) == 1 {
			vc.vals[v] = Term{S: res[0].S, Sort: res[0].Sort, T: v.Type()}
		} else {
			vc.tuples[v] = res
		}
	}
	return res
}

// defaultEffect: a callee without contract.
func (vc *VC) defaultEffect(c *ssa.CallCommon, key, calleePkg string, fn *ssa.Function) {
	if key == "" {
		// a call through a function value whose target is not known: it may do anything to the heap
		vc.trusted["dynamic call through an unknown function value: whole heap havocked, results unconstrained"] = true
		vc.havocAll()
		return
	}
	if strings.HasPrefix(calleePkg, repoModule) {
		if fn != nil && isTriviallyPure(fn) {
			return
		}
		vc.trusted["repo callee without contract (heap havocked): "+shortKey(key)] = true
		vc.havocAll()
		return
	}
	vc.trusted["external callee without contract (results unconstrained; only pointees of pointer args havocked): "+key] = true
	for _, a := range c.Args {
		av := a
		if mi, ok := a.(*ssa.MakeInterface); ok {
			av = mi.X
		}
		if sl, isSl := av.Type().Underlying().(*types.Slice); isSl && !isByteSlice(av.Type()) {
			// an external callee may write through a slice argument (sort.Strings, sort.Sort(sort.StringSlice(s)), copy-like helpers)
			if t := vc.val(av); t.Sort == "Slice" {
				ck := elemComp(sl.Elem())
				es := "(Array Int (Array Int " + vc.sortOf(sl.Elem()) + "))"
				name := vc.fresh("extarr")
				vc.declConst(name, "(Array Int "+vc.sortOf(sl.Elem())+")")
				vc.setComp(ck, es, fmt.Sprintf("(store %s (s_arr %s) %s)", vc.getComp(ck, es), t.S, name))
			}
			continue
		}
		pt, ok := av.Type().Underlying().(*types.Pointer)
		if !ok {
			continue
		}
		vc.havocPointee(vc.val(av).S, pt.Elem())
	}
}

// isTriviallyPure: a repo function whose body contains no stores, map updates or calls (getters etc.).
func isTriviallyPure(fn *ssa.Function) bool {
	if len(fn.Blocks) == 0 {
		return false
	}
	for _, b := range fn.Blocks {
		for _, ins := range b.Instrs {
			switch x := ins.(type) {
			case *ssa.Store:
				if _, ok := x.Addr.(*ssa.Alloc); !ok {
					return false
				}
			case *ssa.MapUpdate, *ssa.Go, *ssa.Defer, *ssa.Send:
				return false
			case *ssa.Call:
				if _, ok := x.Call.Value.(*ssa.Builtin); ok {
					continue
				}
				if sf := x.Call.StaticCallee(); sf != nil {
					p := ""
					if sf.Pkg != nil {
						p = sf.Pkg.Pkg.Path()
					}
					if isNoopCallee(p) || p == "fmt" || p == "errors" || p == "strings" || p == "github.com/pkg/errors" {
						continue
					}
				}
				return false
			}
		}
	}
	return true
}

func (vc *VC) havocPointee(p string, elem types.Type) {
	if st, ok := elem.Underlying().(*types.Struct); ok {
		for i := 0; i < st.NumFields(); i++ {
			f := st.Field(i)
			ck := fieldComp(elem, f)
			if isStruct(f.Type()) {
				vc.comp(ck, "")
				vc.havocPointee(vc.subRef(ck, p), f.Type())
				continue
			}
			fs := vc.fieldSort(f)
			h := vc.havocOf(f.Type(), "hp")
			vc.setComp(ck, fs, fmt.Sprintf("(store %s %s %s)", vc.getComp(ck, fs), p, h.S))
		}
		return
	}
	if _, ok := elem.Underlying().(*types.Array); ok {
		return
	}
	ck := cellComp(elem)
	s := "(Array Int " + vc.sortOf(elem) + ")"
	h := vc.havocOf(elem, "hp")
	vc.setComp(ck, s, fmt.Sprintf("(store %s %s %s)", vc.getComp(ck, s), p, h.S))
}

// havocLvalue: modifies clause l-value: x.f (field of object), elems(s), *p, ghost name, all(x) (every field of *x).
func (vc *VC) havocLvalue(env *SpecEnv, e SpecExpr) error {
	switch n := e.(type) {
	case SIdent:
		if g, ok := vc.eng.DB.Ghosts[n.Name]; ok {
			ty, err := env.lookupType(g.Type)
			if err != nil {
				return err
			}
			h := vc.havocOf(ty, "gh")
			vc.heap.m["G|"+n.Name] = h.S
			vc.comp("G|"+n.Name, h.Sort)
			vc.noteWrite("G|" + n.Name)
			return nil
		}
		if env.cells {
			if c, ok := vc.cellsNow()[n.Name]; ok {
				vc.havocPointee(c.addr, c.elem)
				return nil
			}
		}
		return fmt.Errorf("modifies: %s is not a ghost variable", n.Name)
	case SSel:
		base, err := env.eval(n.X)
		if err != nil {
			return err
		}
		if base.T == nil {
			return fmt.Errorf("untyped base")
		}
		var pk *types.Package
		if nn, ok := derefNamed(base.T); ok && nn.Obj() != nil {
			pk = nn.Obj().Pkg()
		}
		obj, path, _ := types.LookupFieldOrMethod(base.T, true, pk, n.Sel)
		fv, ok := obj.(*types.Var)
		if !ok || fv == nil {
			return fmt.Errorf("no field %s", n.Sel)
		}
		// walk to the containing struct
		cur := base
		for _, idx := range path[:len(path)-1] {
			st := cur.T
			if p, ok := st.Underlying().(*types.Pointer); ok && !cur.Addr {
				st = p.Elem()
			}
			f := st.Underlying().(*types.Struct).Field(idx)
			ck := fieldComp(st, f)
			if isStruct(f.Type()) {
				vc.comp(ck, "")
				cur = Term{S: vc.subRef(ck, cur.S), Sort: "Int", T: f.Type(), Addr: true}
			} else {
				cur = Term{S: fmt.Sprintf("(select %s %s)", vc.getCompIn(env.heap, ck, vc.fieldSort(f)), cur.S), Sort: "Int", T: f.Type()}
			}
		}
		st := cur.T
		if p, ok := st.Underlying().(*types.Pointer); ok && !cur.Addr {
			st = p.Elem()
		}
		f := st.Underlying().(*types.Struct).Field(path[len(path)-1])
		ck := fieldComp(st, f)
		if isStruct(f.Type()) {
			vc.comp(ck, "")
			vc.havocPointee(vc.subRef(ck, cur.S), f.Type())
			return nil
		}
		fs := vc.fieldSort(f)
		h := vc.havocOf(f.Type(), "mod")
		vc.setComp(ck, fs, fmt.Sprintf("(store %s %s %s)", vc.getComp(ck, fs), cur.S, h.S))
		return nil
	case SCall:
		switch n.Fun {
		case "elems":
			s, err := env.eval(n.Args[0])
			if err != nil {
				return err
			}
			sl, ok := s.T.Underlying().(*types.Slice)
			if !ok || s.Sort != "Slice" {
				return fmt.Errorf("elems() needs a slice")
			}
			ck := elemComp(sl.Elem())
			es := "(Array Int (Array Int " + vc.sortOf(sl.Elem()) + "))"
			name := vc.fresh("modarr")
			vc.declConst(name, "(Array Int "+vc.sortOf(sl.Elem())+")")
			vc.setComp(ck, es, fmt.Sprintf("(store %s (s_arr %s) %s)", vc.getComp(ck, es), s.S, name))
			return nil
		case "all":
			p, err := env.eval(n.Args[0])
			if err != nil {
				return err
			}
			pt, ok := p.T.Underlying().(*types.Pointer)
			if !ok {
				return fmt.Errorf("all() needs a pointer")
			}
			vc.havocPointee(p.S, pt.Elem())
			return nil
		case "mapOf":
			m, err := env.eval(n.Args[0])
			if err != nil {
				return err
			}
			mt, ok := m.T.Underlying().(*types.Map)
			if !ok {
				return fmt.Errorf("mapOf() needs a map")
			}
			dk, ds, vk, vs := vc.mapComps(mt)
			d := vc.fresh("moddom")
			vc.declConst(d, "(Array "+vc.sortOf(mt.Key())+" Bool)")
			vc.setComp(dk, ds, fmt.Sprintf("(store %s %s %s)", vc.getComp(dk, ds), m.S, d))
			vv := vc.fresh("modval")
			vc.declConst(vv, "(Array "+vc.sortOf(mt.Key())+" "+vc.sortOf(mt.Elem())+")")
			vc.setComp(vk, vs, fmt.Sprintf("(store %s %s %s)", vc.getComp(vk, vs), m.S, vv))
			return nil
		}
	}
	return fmt.Errorf("unsupported modifies target %v", e)
}

// ---------- builtins ----------

func (vc *VC) builtin(b *ssa.Builtin, c *ssa.CallCommon, v *ssa.Call, pos token.Pos) {
	switch b.Name() {
	case "len", "cap":
		a := vc.val(c.Args[0])
		switch a.Sort {
		case "Slice":
			f := "s_len"
			if b.Name() == "cap" {
				f = "s_cap"
			}
			vc.setVal(v, fmt.Sprintf("(%s %s)", f, a.S))
		case "Str":
			if b.Name() == "cap" {
				t := vc.havocVal(v)
				vc.assume(fmt.Sprintf("(>= %s (strlen %s))", t.S, a.S))
			} else {
				vc.setVal(v, fmt.Sprintf("(strlen %s)", a.S))
			}
		default:
			t := vc.havocVal(v)
			vc.assume(fmt.Sprintf("(>= %s 0)", t.S))
			if mt, ok := c.Args[0].Type().Underlying().(*types.Map); ok {
				vc.assume(fmt.Sprintf("(=> (= %s 0) (= %s 0))", a.S, t.S))
				_ = mt
			}
		}
	case "append":
		vc.appendCall(c, v, pos)
	case "copy":
		dst := vc.val(c.Args[0])
		if dst.Sort == "Slice" {
			sl := c.Args[0].Type().Underlying().(*types.Slice)
			{
				ck := elemComp(sl.Elem())
				es := "(Array Int (Array Int " + vc.sortOf(sl.Elem()) + "))"
				name := vc.fresh("cparr")
				vc.declConst(name, "(Array Int "+vc.sortOf(sl.Elem())+")")
				vc.setComp(ck, es, fmt.Sprintf("(store %s (s_arr %s) %s)", vc.getComp(ck, es), dst.S, name))
			}
		} else {
			vc.unsupp = append(vc.unsupp, "copy into []byte (contents abstracted)")
		}
		if v != nil {
			vc.havocVal(v)
		}
	case "delete":
		m, k := vc.val(c.Args[0]), vc.val(c.Args[1])
		mt := c.Args[0].Type().Underlying().(*types.Map)
		dk, ds, _, _ := vc.mapComps(mt)
		d := vc.getComp(dk, ds)
		vc.setComp(dk, ds, fmt.Sprintf("(store %s %s (store (select %s %s) %s false))", d, m.S, d, m.S, k.S))
	case "panic":
		vc.oblige(fmt.Sprintf("safe/panic[%s]", vc.srcText(pos)), "safe", "false", "explicit panic", pos)
	case "print", "println":
	default:
		if v != nil {
			if _, ok := v.Type().(*types.Tuple); ok {
				vc.havocTuple(v)
			} else {
				vc.havocVal(v)
			}
		}
		vc.unsupp = append(vc.unsupp, "builtin "+b.Name())
	}
}

// constLenSliceOfArray: if v is `slice (new [N]T)[:]`, returns the array alloc and N.
func constLenSlice(v ssa.Value) (*ssa.Alloc, int64, bool) {
	sl, ok := v.(*ssa.Slice)
	if !ok || sl.Low != nil || sl.High != nil {
		return nil, 0, false
	}
	al, ok := sl.X.(*ssa.Alloc)
	if !ok {
		return nil, 0, false
	}
	at, ok := al.Type().Underlying().(*types.Pointer).Elem().Underlying().(*types.Array)
	if !ok {
		return nil, 0, false
	}
	return al, at.Len(), true
}

func (vc *VC) appendCall(c *ssa.CallCommon, v *ssa.Call, pos token.Pos) {
	s := vc.val(c.Args[0])
	t := vc.val(c.Args[1])
	if s.Sort == "Str" { // []byte
		vc.declare("(declare-fun strcat (Str Str) Str)", "strcat")
		r := vc.setVal(v, fmt.Sprintf("(strcat %s %s)", s.S, t.S))
		vc.global(fmt.Sprintf("(= (strlen %s) (+ (strlen %s) (strlen %s)))", r.S, s.S, t.S))
		vc.global(vc.rangeFact(r.S, v.Type()))
		return
	}
	sl := c.Args[0].Type().Underlying().(*types.Slice)
	elem := sl.Elem()
	es := vc.sortOf(elem)
	ck := elemComp(elem)
	cs := "(Array Int (Array Int " + es + "))"
	E := vc.getComp(ck, cs)
	var n string // number of appended elements
	if t.Sort == "Str" { // append([]byte, string...) not reached here
		n = fmt.Sprintf("(strlen %s)", t.S)
	} else {
		n = fmt.Sprintf("(s_len %s)", t.S)
	}
	fresh := vc.newRef()
	fits := vc.fresh("fits")
	vc.define(fits, "Bool", fmt.Sprintf("(<= (+ (s_len %s) %s) (s_cap %s))", s.S, n, s.S))
	narr := vc.fresh("narr")
	vc.define(narr, "Int", fmt.Sprintf("(ite %s (s_arr %s) %s)", fits, s.S, fresh))
	soff, slen := fmt.Sprintf("(s_off %s)", s.S), fmt.Sprintf("(s_len %s)", s.S)
	oldA := fmt.Sprintf("(select %s (s_arr %s))", E, s.S)
	newA := oldA
	if _, k, ok := constLenSlice(c.Args[1]); ok && k <= 8 {
		for j := int64(0); j < k; j++ {
			xj := fmt.Sprintf("(select (select %s (s_arr %s)) (idx (s_off %s) %d))", E, t.S, t.S, j)
			pos := slen
			if j > 0 {
				pos = fmt.Sprintf("(+ %s %d)", slen, j)
			}
			newA = fmt.Sprintf("(store %s (idx %s %s) %s)", newA, soff, pos, xj)
		}
	} else {
		an := vc.fresh("apparr")
		vc.declConst(an, "(Array Int "+es+")")
		vc.assume(fmt.Sprintf("(forall ((i Int)) (! (=> (or (< i %s) (>= i (+ %s %s))) (= (select %s (idx %s i)) (select %s (idx %s i)))) :pattern ((select %s (idx %s i)))))", slen, slen, n, an, soff, oldA, soff, an, soff))
		vc.assume(fmt.Sprintf("(forall ((i Int)) (! (=> (and (<= %s i) (< i (+ %s %s))) (= (select %s (idx %s i)) (select (select %s (s_arr %s)) (idx (s_off %s) (- i %s))))) :pattern ((select %s (idx %s i)))))", slen, slen, n, an, soff, E, t.S, t.S, slen, an, soff))
		newA = fmt.Sprintf("(ite (= %s 0) %s %s)", n, oldA, an)
	}
	if vc.isLocalSliceValue(c.Args[0], 0) {
		vc.writeRoot = localMark
		if v != nil && v.Block() != nil {
			// an accumulator that is nil whenever the innermost loop is entered gets all its arrays inside that loop
			if li := vc.innermostLoopOf(v.Block()); li != nil {
				if ph := vc.phiRoot(c.Args[0], li, 0); ph != nil && vc.nilAtLoopEntry(ph) {
					vc.writeRoot = ph
				}
			}
		}
	}
	vc.setComp(ck, cs, fmt.Sprintf("(store %s %s %s)", E, narr, newA))
	vc.writeRoot = nil
	ncap := vc.fresh("ncap")
	vc.declConst(ncap, "Int")
	vc.global(fmt.Sprintf("(>= %s 0)", ncap))
	r := vc.setVal(v, fmt.Sprintf("(mk_slice %s (s_off %s) (+ (s_len %s) %s) (ite %s (s_cap %s) %s))", narr, s.S, s.S, n, fits, s.S, ncap))
	vc.assume(fmt.Sprintf("(>= (s_cap %s) (s_len %s))", r.S, r.S))
	// nil slice + nothing appended stays nil-like; otherwise the result is non-nil
	vc.assume(fmt.Sprintf("(=> (> (s_len %s) 0) (not (= (s_arr %s) 0)))", r.S, r.S))
	vc.appendGhost(v, c, s, r)
}

// ---------- sort.Slice / sort.SliceStable ----------

func (vc *VC) sortSlice(c *ssa.CallCommon, key string, pos token.Pos) bool {
	mc, ok := c.Args[1].(*ssa.MakeClosure)
	if !ok {
		return false
	}
	cfn := mc.Fn.(*ssa.Function)
	cspec := vc.eng.specFor(funcKey(cfn))
	mi, ok := c.Args[0].(*ssa.MakeInterface)
	if !ok {
		return false
	}
	sv := vc.val(mi.X)
	sl, ok := mi.X.Type().Underlying().(*types.Slice)
	if !ok || sv.Sort != "Slice" || isStruct(sl.Elem()) {
		return false
	}
	elem := sl.Elem()
	es := vc.sortOf(elem)
	ck := elemComp(elem)
	cs := "(Array Int (Array Int " + es + "))"
	name := "sort.Slice"
	if key == "sort.SliceStable" {
		name = "sort.SliceStable"
	}
	if cspec == nil || cspec.Relation == "" {
		vc.trusted[name+" with a comparator that has no 'relation' contract: elements havocked, order unknown"] = true
		arr := vc.fresh("sorted")
		vc.declConst(arr, "(Array Int "+es+")")
		vc.setComp(ck, cs, fmt.Sprintf("(store %s (s_arr %s) %s)", vc.getComp(ck, cs), sv.S, arr))
		return true
	}
	cspec.Bound = true
	vc.trusted["assumed contract: "+name+" (sorted permutation if less is a strict weak order)"] = true
	env := &SpecEnv{vc: vc, pkg: vc.pkg, vars: map[string]Term{}, heap: vc.heap, old: vc.heap}
	rel := func(e *SpecEnv, a, b string) (string, error) {
		ee := e.child()
		ee.vars["__a"] = Term{S: a, Sort: es, T: elem}
		ee.vars["__b"] = Term{S: b, Sort: es, T: elem}
		return ee.evalBool(SCall{cspec.Relation, []SpecExpr{SIdent{"__a"}, SIdent{"__b"}}})
	}
	// strict weak order obligations over arbitrary elements
	a, b, d := vc.havocOf(elem, "swo_a"), vc.havocOf(elem, "swo_b"), vc.havocOf(elem, "swo_c")
	must := func(s string, err error) string {
		if err != nil {
			vc.fail("%s relation %s: %v", name, cspec.Relation, err)
		}
		return s
	}
	raa := must(rel(env, a.S, a.S))
	rab, rba := must(rel(env, a.S, b.S)), must(rel(env, b.S, a.S))
	rbc, rcb := must(rel(env, b.S, d.S)), must(rel(env, d.S, b.S))
	rac, rca := must(rel(env, a.S, d.S)), must(rel(env, d.S, a.S))
	vc.oblige(fmt.Sprintf("call[%s]/less-irreflexive", name), "requires", fmt.Sprintf("(not %s)", raa), "less(a,a) is false", pos)
	vc.oblige(fmt.Sprintf("call[%s]/less-transitive", name), "requires", fmt.Sprintf("(=> (and %s %s) %s)", rab, rbc, rac), "less(a,b) && less(b,c) ==> less(a,c)", pos)
	vc.oblige(fmt.Sprintf("call[%s]/less-incomparability-transitive", name), "requires",
		fmt.Sprintf("(=> (and (not %s) (not %s) (not %s) (not %s)) (and (not %s) (not %s)))", rab, rba, rbc, rcb, rac, rca), "incomparability is transitive", pos)
	// the closure's own preconditions for arbitrary valid indices
	i, j := vc.havocOf(types.Typ[types.Int], "srt_i"), vc.havocOf(types.Typ[types.Int], "srt_j")
	cenv := &SpecEnv{vc: vc, pkg: vc.pkg, vars: map[string]Term{}, heap: vc.heap, old: vc.heap}
	if len(cfn.Params) == 2 {
		cenv.vars[cfn.Params[0].Name()] = i
		cenv.vars[cfn.Params[1].Name()] = j
	}
	for k, fv := range cfn.FreeVars {
		bv := mc.Bindings[k]
		bt := vc.val(bv)
		ad := vc.addrs[bv]
		if ad == nil {
			ad = vc.pointeeAddr(bt.S, bv.Type())
		}
		el := bv.Type().Underlying().(*types.Pointer).Elem()
		cenv.vars[fv.Name()] = Term{S: vc.loadAddrIn(vc.heap, ad), Sort: vc.sortOf(el), T: el}
	}
	inRange := fmt.Sprintf("(and (<= 0 %s) (< %s (s_len %s)) (<= 0 %s) (< %s (s_len %s)))", i.S, i.S, sv.S, j.S, j.S, sv.S)
	for k, r := range cspec.Requires {
		t, err := cenv.evalBool(r.Expr)
		if err != nil {
			vc.fail("%s less requires#%d: %v", name, k+1, err)
		}
		vc.oblige(fmt.Sprintf("call[%s]/less-requires#%d", name, k+1), "requires", fmt.Sprintf("(=> %s %s)", inRange, t), r.Text, pos)
	}
	// effect: elements permuted and sorted
	E := vc.getComp(ck, cs)
	oldA := fmt.Sprintf("(select %s (s_arr %s))", E, sv.S)
	arr := vc.fresh("sorted")
	vc.declConst(arr, "(Array Int "+es+")")
	vc.setComp(ck, cs, fmt.Sprintf("(store %s (s_arr %s) %s)", E, sv.S, arr))
	pi := vc.fresh("perm")
	vc.declare(fmt.Sprintf("(declare-fun %s (Int) Int)", pi), pi)
	off, ln := fmt.Sprintf("(s_off %s)", sv.S), fmt.Sprintf("(s_len %s)", sv.S)
	vc.assume(fmt.Sprintf("(forall ((i Int)) (! (=> (or (< i 0) (>= i %s)) (= (select %s (idx %s i)) (select %s (idx %s i)))) :pattern ((select %s (idx %s i)))))", ln, arr, off, oldA, off, arr, off))
	vc.assume(fmt.Sprintf("(forall ((i Int)) (! (=> (and (<= 0 i) (< i %s)) (and (<= 0 (%s i)) (< (%s i) %s) (= (select %s (idx %s i)) (select %s (idx %s (%s i)))))) :pattern ((select %s (idx %s i)))))", ln, pi, pi, ln, arr, off, oldA, off, pi, arr, off))
	vc.assume(fmt.Sprintf("(forall ((i Int) (j Int)) (! (=> (and (<= 0 i) (< i j) (< j %s)) (not (= (%s i) (%s j)))) :pattern ((%s i) (%s j))))", ln, pi, pi, pi, pi))
	penv := &SpecEnv{vc: vc, pkg: vc.pkg, vars: map[string]Term{}, heap: vc.heap, old: vc.heap, nbound: 1}
	rji := must(rel(penv, fmt.Sprintf("(select %s (idx %s j))", arr, off), fmt.Sprintf("(select %s (idx %s i))", arr, off)))
	vc.assume(fmt.Sprintf("(forall ((i Int) (j Int)) (! (=> (and (<= 0 i) (< i j) (< j %s)) (not %s)) :pattern ((select %s (idx %s i)) (select %s (idx %s j)))))", ln, rji, arr, off, arr, off))
	if key == "sort.SliceStable" {
		rij := must(rel(penv, fmt.Sprintf("(select %s (idx %s i))", arr, off), fmt.Sprintf("(select %s (idx %s j))", arr, off)))
		vc.assume(fmt.Sprintf("(forall ((i Int) (j Int)) (! (=> (and (<= 0 i) (< i j) (< j %s) (not %s) (not %s)) (< (%s i) (%s j))) :pattern ((%s i) (%s j))))", ln, rij, rji, pi, pi, pi, pi))
	}
	return true
}

// ---------- loops ----------

func (vc *VC) loopSpec(li *LoopInfo) *LoopSpec {
	if vc.spec == nil {
		return nil
	}
	return vc.spec.Loops[li.ordinal]
}

// loopEnv builds the spec environment for invariants of loop li where phis take the values given by override
// (nil: the phis' own header values).
func (vc *VC) loopEnv(li *LoopInfo, override map[*ssa.Phi]Term, heap Heap) *SpecEnv {
	env := vc.entryEnv()
	env.heap = heap
	hb := vc.fn.Blocks[li.header]
	// inside a loop a parameter name denotes the current value of the variable (it may have been reassigned)
	for _, p := range vc.fn.Params {
		if t, ok := vc.resolveLocal(p.Name(), hb, heap, override); ok {
			env.vars[p.Name()] = t
		}
	}
	base := env.resolve
	env.resolve = func(name string) (Term, bool) {
		if name == "_k" {
			if ph, off, _ := vc.countingPhi(li); ph != nil {
				t := vc.vals[ph]
				if override != nil {
					if o, ok := override[ph]; ok {
						t = o
					}
				}
				if off == 0 {
					return Term{S: t.S, Sort: "Int", T: types.Typ[types.Int]}, true
				}
				return Term{S: fmt.Sprintf("(+ %s %d)", t.S, off), Sort: "Int", T: types.Typ[types.Int]}, true
			}
			return Term{}, false
		}
		if t, ok := vc.resolveLocal(name, hb, heap, override); ok {
			return t, true
		}
		if base != nil {
			return base(name)
		}
		return Term{}, false
	}
	return env
}

func (vc *VC) autoRangeInvariant(li *LoopInfo, env *SpecEnv) string {
	ph, _, bound := vc.countingPhi(li)
	if ph == nil {
		return "true"
	}
	k, _ := env.resolve("_k")
	if bound != nil {
		if c, isCall := bound.(*ssa.Call); isCall {
			if b, isBi := c.Call.Value.(*ssa.Builtin); isBi && b.Name() == "len" {
				a := vc.val(c.Call.Args[0])
				switch a.Sort {
				case "Slice":
					return fmt.Sprintf("(and (<= 0 %s) (<= %s (s_len %s)))", k.S, k.S, a.S)
				case "Str":
					return fmt.Sprintf("(and (<= 0 %s) (<= %s (strlen %s)))", k.S, k.S, a.S)
				}
				return fmt.Sprintf("(<= 0 %s)", k.S)
			}
		}
		if ln, ok := vc.vals[bound]; ok {
			return fmt.Sprintf("(and (<= 0 %s) (<= %s %s))", k.S, k.S, ln.S)
		}
		if _, isC := bound.(*ssa.Const); isC {
			return fmt.Sprintf("(and (<= 0 %s) (<= %s %s))", k.S, k.S, vc.val(bound).S)
		}
	}
	return fmt.Sprintf("(<= 0 %s)", k.S)
}

// countingPhi finds the iteration counter of a loop: the rangeindex phi of a range loop (processed count = phi+1), or
// the induction variable of a canonical index loop `for i := 0; i < E; i++` (processed count = i), where E is a
// constant or the length of a slice / string value defined outside the loop (immutable, so 0 <= i <= E is an invariant
// by construction). Returns the phi, the offset to add and the bound value (nil if unknown).
func (vc *VC) countingPhi(li *LoopInfo) (*ssa.Phi, int, ssa.Value) {
	hb := vc.fn.Blocks[li.header]
	findBound := func(ph ssa.Value, plus1 bool) ssa.Value {
		for _, ins2 := range hb.Instrs {
			if bo, ok := ins2.(*ssa.BinOp); ok && bo.Op == token.LSS {
				return bo.Y
			}
		}
		return nil
	}
	for _, ins := range hb.Instrs {
		if ph, ok := ins.(*ssa.Phi); ok && ph.Comment == "rangeindex" {
			return ph, 1, findBound(ph, true)
		}
	}
	for _, ins := range hb.Instrs {
		ph, ok := ins.(*ssa.Phi)
		if !ok || len(ph.Edges) != 2 || len(hb.Preds) != 2 {
			continue
		}
		if b, isB := ph.Type().Underlying().(*types.Basic); !isB || b.Kind() != types.Int {
			continue
		}
		good := true
		for i, p := range hb.Preds {
			e := ph.Edges[i]
			if vc.isBack[[2]int{p.Index, hb.Index}] {
				bo, isBo := e.(*ssa.BinOp)
				if !isBo || bo.Op != token.ADD || bo.X != ssa.Value(ph) {
					good = false
					break
				}
				c, isC := bo.Y.(*ssa.Const)
				if !isC || c.Value == nil || c.Int64() != 1 {
					good = false
				}
			} else {
				c, isC := e.(*ssa.Const)
				if !isC || c.Value == nil || c.Int64() != 0 {
					good = false
				}
			}
		}
		if !good {
			continue
		}
		// the header must test phi < E with E immutable: a constant, or len() of a value defined outside the loop
		var bound ssa.Value
		hasTest := false
		for _, ins2 := range hb.Instrs {
			bo, ok := ins2.(*ssa.BinOp)
			if !ok || bo.Op != token.LSS || bo.X != ssa.Value(ph) {
				continue
			}
			hasTest = true
			switch y := bo.Y.(type) {
			case *ssa.Const:
				bound = y
			case *ssa.Call:
				if b, isBi := y.Call.Value.(*ssa.Builtin); isBi && b.Name() == "len" && len(y.Call.Args) == 1 {
					arg := y.Call.Args[0]
					if ai, isIns := arg.(ssa.Instruction); !isIns || !li.blocks[ai.Block().Index] {
						if _, isMap := arg.Type().Underlying().(*types.Map); !isMap {
							bound = y
						}
					}
				}
			default:
				if yi, isIns := bo.Y.(ssa.Instruction); !isIns || !li.blocks[yi.Block().Index] {
					bound = bo.Y
				}
			}
		}
		if !hasTest {
			continue
		}
		// (when the bound is re-read from the heap in every iteration, e.g. len(p.Patches), only 0 <= i is assumed)
		// the only other assignment to the counter is the increment (guaranteed by the phi shape); `continue` paths
		// also pass through the increment in go/ssa's lowering of the post statement
		return ph, 0, bound
	}
	return nil, 0, nil
}

// checkInvariantsOnEdge: obligations that the invariants hold when entering the loop from pred p.
func (vc *VC) checkInvariantsOnEdge(li *LoopInfo, p, h *ssa.BasicBlock, what string) {
	ls := vc.loopSpec(li)
	override := map[*ssa.Phi]Term{}
	pi := -1
	for i, pp := range h.Preds {
		if pp == p {
			pi = i
		}
	}
	for _, ins := range h.Instrs {
		if ph, ok := ins.(*ssa.Phi); ok && pi >= 0 {
			override[ph] = vc.val(ph.Edges[pi])
		}
	}
	heap := vc.heapOut[vc.rpoPos[p.Index]]
	if what == "init" {
		// ghost arrays start empty/undefined: nothing to set (their content before the loop is irrelevant)
	}
	env := vc.loopEnv(li, override, heap)
	saveReach := vc.reach[vc.curBlk]
	vc.reach[vc.curBlk] = vc.edge(p, h)
	defer func() { vc.reach[vc.curBlk] = saveReach }()
	if ls != nil {
		for i, c := range ls.Invariants {
			t, err := env.evalBool(c.Expr)
			if err != nil {
				vc.fail("%s loop %d invariant#%d (%s): %v", shortKey(vc.key), li.ordinal, i+1, what, err)
			}
			kind := "inv-init"
			nm := "established"
			if what != "init" {
				kind, nm = "inv-preserved", "preserved"
			}
			vc.oblige(fmt.Sprintf("loop%d/inv#%d/%s", li.ordinal, i+1, nm), kind, t, c.Text, token.NoPos)
		}
	}
}

// checkInvariants is called at the end of a back-edge source block (state = vc.heap) and, via enterBlock,
// at loop entry. For "preserved" the current block is the back-edge source.
func (vc *VC) checkInvariants(li *LoopInfo, src *ssa.BasicBlock, what string) {
	h := vc.fn.Blocks[li.header]
	vc.checkInvariantsOnEdge(li, src, h, what)
}

// assumeInvariants: at the loop header after havoc.
func (vc *VC) assumeInvariants(li *LoopInfo) {
	env := vc.loopEnv(li, nil, vc.heap)
	vc.assume(vc.autoRangeInvariant(li, env))
	top0 := vc.getCompIn(vc.entryHeap, "top", "Int")
	for _, ph := range li.localSlices {
		t := vc.vals[ph]
		vc.assume(fmt.Sprintf("(or (= (s_arr %s) 0) (> (s_arr %s) %s))", t.S, t.S, top0))
		for _, ph2 := range li.localSlices {
			if ph2 != ph {
				vc.assume(fmt.Sprintf("(or (= (s_arr %s) 0) (not (= (s_arr %s) (s_arr %s))))", t.S, t.S, vc.vals[ph2].S))
			}
		}
	}
	ls := vc.loopSpec(li)
	if ls == nil {
		return
	}
	for i, c := range ls.Invariants {
		t, err := env.evalBool(c.Expr)
		if err != nil {
			vc.fail("%s loop %d invariant#%d: %v", shortKey(vc.key), li.ordinal, i+1, err)
		}
		vc.assume(t)
	}
}

// ---------- frame ----------

func (vc *VC) frame(x *ssa.Return) {
	if vc.spec == nil || vc.dry {
		return
	}
	for _, fo := range vc.frameConds(vc.heap, false) {
		if fo.ghost {
			vc.oblige(fmt.Sprintf("frame[%s]", fo.comp[2:]), "frame", fo.cond, "ghost not in modifies", x.Pos())
		} else {
			vc.oblige(fmt.Sprintf("frame[%s]", fo.comp), "frame", fo.cond, "heap component unchanged at pre-existing references outside modifies", x.Pos())
		}
	}
}

type frameCond struct {
	comp  string
	cond  string
	ghost bool
}

// frameConds: for every heap component whose version in h differs from the entry version, the condition "unchanged at
// every reference that existed at function entry, except where a modifies clause allows a change". With quant the
// reference is universally quantified (usable as an assumption / invariant: the spec builtin framed()); without, it is a
// fresh constant (obligation form).
func (vc *VC) frameConds(h Heap, quant bool) []frameCond {
	// components whose current version differs from the entry version must be covered by modifies,
	// except at references allocated by this function.
	for _, m := range vc.spec.Modifies {
		if m.Text == "*" {
			return nil
		}
	}
	top0 := vc.getCompIn(vc.entryHeap, "top", "Int")
	// allowed (component, ref) pairs from modifies clauses
	type allow struct{ comp, ref string }
	var allows []allow
	env := vc.entryEnv()
	allowAllComp := map[string]bool{}
	for _, gs := range vc.spec.Sets {
		allowAllComp["G|"+gs.Name] = true
	}
	for _, m := range vc.spec.Modifies {
		switch n := m.Expr.(type) {
		case SIdent:
			allowAllComp["G|"+n.Name] = true
			if c, ok := vc.cellsNow()[n.Name]; ok && !isStruct(c.elem) {
				allows = append(allows, allow{cellComp(c.elem), c.addr})
			}
		case SSel:
			base, err := env.eval(n.X)
			if err != nil || base.T == nil {
				continue
			}
			st := base.T
			if p, ok := st.Underlying().(*types.Pointer); ok {
				st = p.Elem()
			}
			var pk *types.Package
			if nn, ok := derefNamed(base.T); ok && nn.Obj() != nil {
				pk = nn.Obj().Pkg()
			}
			obj, path, _ := types.LookupFieldOrMethod(base.T, true, pk, n.Sel)
			if fv, ok := obj.(*types.Var); ok && len(path) == 1 {
				allows = append(allows, allow{fieldComp(st, fv), base.S})
			} else {
				// nested path: allow the whole component of the final field (coarse)
				if fv, ok := obj.(*types.Var); ok {
					for k := range vc.comps {
						if strings.HasSuffix(k, "|"+fv.Name()) {
							allowAllComp[k] = true
						}
					}
				}
			}
		case SCall:
			switch n.Fun {
			case "elems":
				s, err := env.eval(n.Args[0])
				if err == nil && s.Sort == "Slice" {
					if sl, ok := s.T.Underlying().(*types.Slice); ok {
						allows = append(allows, allow{elemComp(sl.Elem()), fmt.Sprintf("(s_arr %s)", s.S)})
					}
				}
			case "all":
				p, err := env.eval(n.Args[0])
				if err == nil {
					if pt, ok := p.T.Underlying().(*types.Pointer); ok {
						if st, ok := pt.Elem().Underlying().(*types.Struct); ok {
							for i := 0; i < st.NumFields(); i++ {
								allows = append(allows, allow{fieldComp(pt.Elem(), st.Field(i)), p.S})
							}
						}
					}
				}
			case "mapOf":
				mv, err := env.eval(n.Args[0])
				if err == nil {
					if mt, ok := mv.T.Underlying().(*types.Map); ok {
						dk, _, vk, _ := vc.mapComps(mt)
						allows = append(allows, allow{dk, mv.S}, allow{vk, mv.S})
					}
				}
			}
		}
	}
	var keys []string
	for k := range h.m {
		keys = append(keys, k)
	}
	sortStrings(keys)
	var out []frameCond
	for _, k := range keys {
		if k == "top" || strings.HasPrefix(k, "ghost|") || allowAllComp[k] {
			continue
		}
		c := vc.comps[k]
		if c == nil || c.sort == "" {
			continue
		}
		cur := h.m[k]
		init := vc.getCompIn(vc.entryHeap, k, c.sort)
		if cur == init {
			continue
		}
		if strings.HasPrefix(k, "G|") {
			out = append(out, frameCond{k, fmt.Sprintf("(= %s %s)", cur, init), true})
			continue
		}
		if !strings.HasPrefix(c.sort, "(Array Int ") {
			continue
		}
		r := "frq"
		if !quant {
			r = vc.fresh("fr")
			vc.declConst(r, "Int")
		}
		var ex []string
		for _, a := range allows {
			if a.comp == k {
				ex = append(ex, fmt.Sprintf("(not (= %s %s))", r, a.ref))
			}
		}
		cond := fmt.Sprintf("(=> (and (< 0 (root %s)) (<= (root %s) %s) %s) (= (select %s %s) (select %s %s)))", r, r, top0, "(and true "+strings.Join(ex, " ")+")", cur, r, init, r)
		if quant {
			cond = fmt.Sprintf("(forall ((frq Int)) (! %s :pattern ((select %s frq))))", cond, cur)
		}
		out = append(out, frameCond{k, cond, false})
	}
	return out
}

func sortStrings(s []string) {
	for i := 1; i < len(s); i++ {
		for j := i; j > 0 && s[j] < s[j-1]; j-- {
			s[j], s[j-1] = s[j-1], s[j]
		}
	}
}

// ---------- auto-ghosts (filled in ghosts.go) ----------

// dynamicDispatch handles a call through a function value by case analysis over the repo functions of the same
// signature whose address is taken somewhere (candidates must have contracts and modify nothing).
func (vc *VC) dynamicDispatch(c *ssa.CallCommon, v *ssa.Call, sig *types.Signature, args []Term, pos token.Pos) bool {
	if sig == nil {
		return false
	}
	f := vc.val(c.Value)
	var cands []*ssa.Function
	for _, fn := range vc.eng.addrTakenFuncs() {
		if types.Identical(fn.Signature, sig) {
			cands = append(cands, fn)
		}
	}
	if len(cands) == 0 || len(cands) > 6 {
		return false
	}
	for _, fn := range cands {
		sp := vc.eng.specFor(funcKey(fn))
		if sp == nil || len(sp.Modifies) > 0 {
			return false
		}
	}
	rnames := resultNamesOf(sig, nil)
	res := vc.bindResults(v, sig, rnames)
	var alts []string
	for _, fn := range cands {
		sp := vc.eng.specFor(funcKey(fn))
		sp.Bound = true
		fc := vc.val(fn).S
		alts = append(alts, fmt.Sprintf("(= %s %s)", f.S, fc))
		env := &SpecEnv{vc: vc, pkg: vc.pkg, vars: map[string]Term{}, heap: vc.heap, old: vc.heap}
		if fn.Pkg != nil {
			env.pkg = fn.Pkg.Pkg
		}
		for i, p := range fn.Params {
			if i < len(args) {
				env.vars[p.Name()] = args[i]
			}
		}
		for i, r := range sp.Requires {
			t, err := env.evalBool(r.Expr)
			if err != nil {
				vc.fail("dynamic call %s requires#%d: %v", shortKey(funcKey(fn)), i+1, err)
			}
			vc.oblige(fmt.Sprintf("call[dyn:%s]/requires#%d", fn.Name(), i+1), "requires", fmt.Sprintf("(=> (= %s %s) %s)", f.S, fc, t), r.Text, pos)
		}
		frn := resultNamesOf(fn.Signature, sp)
		for i, r := range res {
			env.vars[frn[i]] = r
			if len(res) == 1 {
				env.vars["result"] = r
			}
		}
		for i, en := range sp.Ensures {
			t, err := env.evalBool(en.Expr)
			if err != nil {
				vc.fail("dynamic call %s ensures#%d: %v", shortKey(funcKey(fn)), i+1, err)
			}
			vc.assume(fmt.Sprintf("(=> (= %s %s) %s)", f.S, fc, t))
		}
	}
	vc.trusted["dynamic call resolved by case analysis over address-taken functions of the same signature"] = true
	_ = alts
	return true
}

func (e *Engine) addrTakenFuncs() []*ssa.Function {
	if e.addrTaken != nil {
		return e.addrTaken
	}
	seen := map[*ssa.Function]bool{}
	for _, fn := range e.Funcs {
		for _, b := range fn.Blocks {
			for _, ins := range b.Instrs {
				var ops []*ssa.Value
				for _, op := range ins.Operands(ops) {
					if op == nil || *op == nil {
						continue
					}
					f, ok := (*op).(*ssa.Function)
					if !ok || f.Pkg == nil || !strings.HasPrefix(f.Pkg.Pkg.Path(), repoModule) || f.Signature.Recv() != nil || f.Parent() != nil {
						continue
					}
					// the callee position of a static call does not take the address
					if cc, ok := ins.(ssa.CallInstruction); ok && cc.Common().Value == f {
						isArg := false
						for _, a := range cc.Common().Args {
							if a == f {
								isArg = true
							}
						}
						if !isArg {
							continue
						}
					}
					seen[f] = true
				}
			}
		}
	}
	e.addrTaken = []*ssa.Function{}
	for f := range seen {
		e.addrTaken = append(e.addrTaken, f)
	}
	sort.Slice(e.addrTaken, func(i, j int) bool { return funcKey(e.addrTaken[i]) < funcKey(e.addrTaken[j]) })
	return e.addrTaken
}

// setGhost performs a ghost assignment "g = expr" (contract clause `sets`), evaluated in env.
func (vc *VC) setGhost(env *SpecEnv, gs GhostSet) error {
	g, ok := vc.eng.DB.Ghosts[gs.Name]
	if !ok {
		return fmt.Errorf("%s is not a ghost variable", gs.Name)
	}
	ty, err := env.lookupType(g.Type)
	if err != nil {
		return err
	}
	t, err := env.eval(gs.C.Expr)
	if err != nil {
		return err
	}
	s := vc.sortOf(ty)
	if t.Sort != s {
		return fmt.Errorf("sort %s, ghost has %s", t.Sort, s)
	}
	vc.setComp("G|"+gs.Name, s, t.S)
	return nil
}

// inlinable: a repo function without contract that can be verified as part of its caller: it has a body, no loops,
// no defers / goroutines / selects, and is small.
func inlinable(fn *ssa.Function) bool {
	if len(fn.Blocks) == 0 || fn.Recover != nil {
		return false
	}
	n := 0
	for _, b := range fn.Blocks {
		for _, s := range b.Succs {
			if s.Dominates(b) {
				return false // loop
			}
		}
		for _, ins := range b.Instrs {
			n++
			switch ins.(type) {
			case *ssa.Defer, *ssa.Go, *ssa.Select, *ssa.RunDefers:
				return false
			}
		}
	}
	return n <= 250
}

// inlineCall verifies a call to a contract-less repo function against the callee's *body* (an extracted helper
// without its own contract does not break the caller's proof, and a bug inside it is attributed to the caller's
// obligations). Returns false when the callee cannot be inlined.
func (vc *VC) inlineCall(fn *ssa.Function, args []Term, v *ssa.Call) bool {
	if vc.inlDepth >= 2 || !inlinable(fn) || len(args) != len(fn.Params) {
		return false
	}
	ch := *vc
	ch.fn, ch.key, ch.spec = fn, funcKey(fn), nil
	if fn.Pkg != nil {
		ch.pkg = fn.Pkg.Pkg
	}
	ch.vals, ch.tuples, ch.addrs = map[ssa.Value]Term{}, map[ssa.Value][]Term{}, map[ssa.Value]*Addr{}
	ch.heapOut, ch.reach, ch.edgeTerm = map[int]Heap{}, map[int]string{}, map[[2]int]string{}
	ch.defers, ch.rets = nil, nil
	ch.inl, ch.posBlk, ch.inlDepth = true, vc.wblk(), vc.inlDepth+1
	(*vc.ctr)++
	ch.pfx = fmt.Sprintf("i%d_", *vc.ctr)
	ch.analyzeCFG()
	if len(ch.loops) > 0 {
		return false
	}
	ch.findLocalAllocs()
	for i, p := range fn.Params {
		ch.vals[p] = Term{S: args[i].S, Sort: args[i].Sort, T: p.Type()}
	}
	if len(fn.FreeVars) > 0 {
		// a func literal of the same closure tree: its captured variables are the caller's cells of the same name
		if rootFn(fn) != rootFn(vc.fn) {
			return false
		}
		cur := vc.cellsNow()
		ch.cells = map[string]cellRef{}
		for n, c := range cur {
			ch.cells[n] = c
		}
		for _, fv := range fn.FreeVars {
			c, ok := cur[fv.Name()]
			if !ok {
				return false
			}
			ch.vals[fv] = Term{S: c.addr, Sort: "Int", T: fv.Type()}
		}
	}
	ch.heap = vc.heap.clone()
	ch.curBlk, ch.curIdx = 0, -1
	ch.reach[0] = vc.reach[vc.curBlk]
	ch.runBlocks()
	// copy back what the child appended
	vc.decls, vc.facts, vc.obls, vc.unsupp = ch.decls, ch.facts, ch.obls, ch.unsupp
	vc.useRoot = vc.useRoot || ch.useRoot
	vc.trusted["callee without contract verified against its body (inlined): "+shortKey(funcKey(fn))] = true
	if len(ch.rets) == 0 {
		// the callee never returns normally (panics on every path)
		vc.reach[vc.curBlk] = "false"
		return true
	}
	var gs []string
	for _, r := range ch.rets {
		gs = append(gs, r.guard)
	}
	// results
	nres := fn.Signature.Results().Len()
	var res []Term
	for k := 0; k < nres; k++ {
		ty := fn.Signature.Results().At(k).Type()
		term := ch.rets[len(ch.rets)-1].results[k].S
		for i := len(ch.rets) - 2; i >= 0; i-- {
			term = fmt.Sprintf("(ite %s %s %s)", gs[i], ch.rets[i].results[k].S, term)
		}
		name := vc.fresh("inlres")
		vc.define(name, vc.sortOf(ty), term)
		res = append(res, Term{S: name, Sort: vc.sortOf(ty), T: ty})
	}
	if v != nil {
		if nres == 1 {
			vc.vals[v] = Term{S: res[0].S, Sort: res[0].Sort, T: v.Type()}
		} else if nres > 1 {
			vc.tuples[v] = res
		}
	}
	// heap: merge the heaps of the return sites
	merged := ch.rets[0].heap.clone()
	if len(ch.rets) > 1 {
		sameEpoch := true
		keys := map[string]bool{}
		for _, r := range ch.rets {
			if r.heap.epoch != ch.rets[0].heap.epoch {
				sameEpoch = false
			}
			for k := range r.heap.m {
				keys[k] = true
			}
		}
		if !sameEpoch {
			for k := range vc.comps {
				keys[k] = true
			}
			(*vc.ctr)++
			merged = Heap{m: map[string]string{}, epoch: *vc.ctr}
		}
		var ks []string
		for k := range keys {
			ks = append(ks, k)
		}
		sort.Strings(ks)
		for _, k := range ks {
			cmp := vc.comps[k]
			if cmp == nil || cmp.sort == "" {
				continue
			}
			var vs []string
			same := true
			for _, r := range ch.rets {
				x := vc.getCompIn(r.heap, k, cmp.sort)
				vs = append(vs, x)
				if x != vs[0] {
					same = false
				}
			}
			if same {
				merged.m[k] = vs[0]
				continue
			}
			term := vs[len(vs)-1]
			for i := len(vs) - 2; i >= 0; i-- {
				term = fmt.Sprintf("(ite %s %s %s)", gs[i], vs[i], term)
			}
			name := vc.fresh(fmt.Sprintf("Hi_%d", cmp.id))
			vc.define(name, cmp.sort, term)
			merged.m[k] = name
			vc.noteWrite(k)
		}
	}
	for k := range merged.m {
		if merged.m[k] != vc.heap.m[k] {
			vc.noteWrite(k)
		}
	}
	vc.heap = merged
	// control continues only where the callee returned
	rn := vc.fresh("Rinl")
	if len(gs) == 1 {
		vc.define(rn, "Bool", gs[0])
	} else {
		vc.define(rn, "Bool", "(or "+strings.Join(gs, " ")+")")
	}
	vc.reach[vc.curBlk] = rn
	return true
}
