package main

// Captured variables ("cells") of a function with closures.
//
// go/ssa captures every variable shared between a function P and its func literals by reference: the variable is an
// Alloc in P, each closure that mentions it gets a FreeVar of pointer type bound to that Alloc. A closure that does not
// mention a variable itself can still change it through another closure it calls (scan() advances `index` through
// nextChar()). Contracts of closures therefore may name ANY captured variable of the enclosing function; in the VC of a
// closure that does not capture the variable the cell's address is a symbolic constant (allocated before entry, distinct
// from every other cell of P).
//
// A call through a cell that holds a func literal (`nextChar()` inside `scan`) resolves to that literal when the cell is
// assigned exactly once in the whole closure tree, by a MakeClosure in P; the call then uses the literal's contract.

import (
	"fmt"
	"go/token"
	"go/types"
	"sort"

	"golang.org/x/tools/go/ssa"
)

type cellRef struct {
	addr string // SMT term of the cell's address
	elem types.Type
}

type cellInfo struct {
	alloc   *ssa.Alloc
	closure *ssa.Function // the unique func literal stored in the cell (nil if none / not unique)
}

// rootFn: the outermost enclosing function.
func rootFn(fn *ssa.Function) *ssa.Function {
	for fn.Parent() != nil {
		fn = fn.Parent()
	}
	return fn
}

func closureTree(fn *ssa.Function, out *[]*ssa.Function) {
	*out = append(*out, fn)
	for _, a := range fn.AnonFuncs {
		closureTree(a, out)
	}
}

// cellInfos: captured Allocs of root by source name (names bound to two different Allocs are dropped).
func (eng *Engine) cellInfos(root *ssa.Function) map[string]*cellInfo {
	if eng.cellCache == nil {
		eng.cellCache = map[*ssa.Function]map[string]*cellInfo{}
	}
	if m, ok := eng.cellCache[root]; ok {
		return m
	}
	m := map[string]*cellInfo{}
	ambiguous := map[string]bool{}
	var fns []*ssa.Function
	closureTree(root, &fns)
	for _, f := range fns {
		for _, b := range f.Blocks {
			for _, ins := range b.Instrs {
				mc, ok := ins.(*ssa.MakeClosure)
				if !ok {
					continue
				}
				for _, bv := range mc.Bindings {
					al, ok := bv.(*ssa.Alloc)
					if !ok || al.Comment == "" {
						continue
					}
					if ci, dup := m[al.Comment]; dup && ci.alloc != al {
						ambiguous[al.Comment] = true
						continue
					}
					m[al.Comment] = &cellInfo{alloc: al}
				}
			}
		}
	}
	for n := range ambiguous {
		delete(m, n)
	}
	// stores into the cells: in root through the Alloc, in closures through the FreeVar of the same name
	stores := map[string]int{}
	for _, f := range fns {
		for _, b := range f.Blocks {
			for _, ins := range b.Instrs {
				st, ok := ins.(*ssa.Store)
				if !ok {
					continue
				}
				name := ""
				switch a := st.Addr.(type) {
				case *ssa.Alloc:
					if ci := m[a.Comment]; ci != nil && ci.alloc == a {
						name = a.Comment
					}
				case *ssa.FreeVar:
					if m[a.Name()] != nil {
						name = a.Name()
					}
				}
				if name == "" {
					continue
				}
				stores[name]++
				if mc, ok := st.Val.(*ssa.MakeClosure); ok && f == root {
					m[name].closure = mc.Fn.(*ssa.Function)
				} else if lit, ok := st.Val.(*ssa.Function); ok && f == root && lit.Parent() != nil {
					m[name].closure = lit // a func literal without captured variables
				}
			}
		}
	}
	for n, ci := range m {
		if stores[n] != 1 || !onlyCellUses(ci.alloc, ci.alloc.Referrers()) {
			ci.closure = nil
		}
	}
	for _, f := range fns {
		for _, fv := range f.FreeVars {
			if ci := m[fv.Name()]; ci != nil && !onlyCellUses(fv, fv.Referrers()) {
				ci.closure = nil
			}
		}
	}
	eng.cellCache[root] = m
	return m
}

// cellTable: name -> address term of every captured variable of the enclosing closure tree, as seen from vc.fn.
func (vc *VC) cellTable() map[string]cellRef {
	if vc.cells != nil {
		return vc.cells
	}
	vc.cells = map[string]cellRef{}
	root := rootFn(vc.fn)
	if len(root.AnonFuncs) == 0 {
		return vc.cells
	}
	infos := vc.eng.cellInfos(root)
	var names []string
	for n := range infos {
		names = append(names, n)
	}
	sort.Strings(names)
	byName := map[string]*ssa.FreeVar{}
	for _, fv := range vc.fn.FreeVars {
		byName[fv.Name()] = fv
	}
	top0 := vc.getCompIn(vc.entryHeap, "top", "Int")
	var addrs []string
	for _, n := range names {
		ci := infos[n]
		elem := ci.alloc.Type().Underlying().(*types.Pointer).Elem()
		switch {
		case vc.fn == root:
			// the function's own Alloc: its address is known once the Alloc has executed
			if t, ok := vc.vals[ci.alloc]; ok {
				vc.cells[n] = cellRef{t.S, elem}
			}
			continue
		case byName[n] != nil:
			vc.cells[n] = cellRef{vc.vals[byName[n]].S, elem}
		default:
			c := "cell_" + mangle(n)
			vc.declConst(c, "Int")
			vc.global(fmt.Sprintf("(> %s 0)", c))
			vc.cells[n] = cellRef{c, elem}
		}
		a := vc.cells[n].addr
		vc.global(fmt.Sprintf("(<= %s %s)", a, top0))
		addrs = append(addrs, a)
	}
	if len(addrs) > 1 {
		d := "(distinct"
		for _, a := range addrs {
			d += " " + a
		}
		vc.global(d + ")")
	}
	return vc.cells
}

// cellsNow: like cellTable, but in the root function itself the table is rebuilt (Allocs execute one by one).
func (vc *VC) cellsNow() map[string]cellRef {
	if vc.fn.Parent() == nil {
		vc.cells = nil
	}
	return vc.cellTable()
}

// cellValue: current value of captured variable `name` in heap h.
func (vc *VC) cellValue(name string, h Heap) (Term, bool) {
	c, ok := vc.cellsNow()[name]
	if !ok {
		return Term{}, false
	}
	pt := types.NewPointer(c.elem)
	ad := vc.pointeeAddr(c.addr, pt)
	if isStruct(c.elem) {
		return Term{S: c.addr, Sort: "Int", T: c.elem, Addr: true}, true
	}
	return Term{S: vc.loadAddrIn(h, ad), Sort: vc.sortOf(c.elem), T: c.elem}, true
}

// cellCallee: the func literal called by `(*cell)()`, if the cell provably holds exactly that literal.
func (vc *VC) cellCallee(v ssa.Value) *ssa.Function {
	ld, ok := v.(*ssa.UnOp)
	if !ok || ld.Op != token.MUL {
		return nil
	}
	root := rootFn(vc.fn)
	if len(root.AnonFuncs) == 0 {
		return nil
	}
	infos := vc.eng.cellInfos(root)
	switch a := ld.X.(type) {
	case *ssa.FreeVar:
		if ci := infos[a.Name()]; ci != nil {
			return ci.closure
		}
	case *ssa.Alloc:
		if ci := infos[a.Comment]; ci != nil && ci.alloc == a {
			return ci.closure
		}
	}
	return nil
}

// onlyCellUses: the cell's address is only loaded from, stored to, or bound into a func literal (it does not escape).
func onlyCellUses(cell ssa.Value, refs *[]ssa.Instruction) bool {
	if refs == nil {
		return true
	}
	for _, r := range *refs {
		switch x := r.(type) {
		case *ssa.Store:
			if x.Addr != cell {
				return false
			}
		case *ssa.UnOp, *ssa.MakeClosure, *ssa.DebugRef:
		default:
			return false
		}
	}
	return true
}

// ---------- package-level slice variables that are never reassigned ----------

// globalSliceLen: the length of package-level slice variable g if it is bound exactly once, in the package initialiser,
// to a slice literal, is never assigned elsewhere in the loaded program and its address is only ever loaded from.
// (Its ELEMENTS may still be written through the loaded slice; only the length is fixed.)
func (eng *Engine) globalSliceLen(g *ssa.Global) (int64, bool) {
	if eng.globLen == nil {
		eng.globLen = map[*ssa.Global]int64{}
		bad := map[*ssa.Global]bool{}
		for _, pkg := range eng.Prog.AllPackages() {
			for _, m := range pkg.Members {
				fn, ok := m.(*ssa.Function)
				if !ok {
					continue
				}
				var fns []*ssa.Function
				closureTree(fn, &fns)
				for _, f := range fns {
					for _, b := range f.Blocks {
						for _, ins := range b.Instrs {
							// any operand that is a global, other than as the address of a load / store, escapes it
							for _, op := range ins.Operands(nil) {
								gl, ok := (*op).(*ssa.Global)
								if !ok {
									continue
								}
								switch x := ins.(type) {
								case *ssa.UnOp:
									continue
								case *ssa.Store:
									if x.Addr == ssa.Value(gl) && x.Val != ssa.Value(gl) {
										if f.Name() == "init" && f.Pkg == gl.Pkg {
											if sl, ok := x.Val.(*ssa.Slice); ok && sl.Low == nil && sl.High == nil {
												if al, ok := sl.X.(*ssa.Alloc); ok {
													if at, ok := al.Type().Underlying().(*types.Pointer).Elem().Underlying().(*types.Array); ok {
														if _, dup := eng.globLen[gl]; !dup {
															eng.globLen[gl] = at.Len()
															continue
														}
													}
												}
											}
										}
									}
									bad[gl] = true
								case *ssa.DebugRef:
									continue
								default:
									bad[gl] = true
								}
							}
						}
					}
				}
			}
		}
		for g := range bad {
			delete(eng.globLen, g)
		}
	}
	n, ok := eng.globLen[g]
	return n, ok
}
