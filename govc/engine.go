package main

import (
	"fmt"
	"go/ast"
	"go/types"
	"os"
	"path/filepath"
	"sort"
	"strings"

	"golang.org/x/tools/go/packages"
	"golang.org/x/tools/go/ssa"
	"golang.org/x/tools/go/ssa/ssautil"
)

const repoModule = "github.com/trustbloc/sidetree-core-go"

type Engine struct {
	RepoDir string
	Pkgs    []*packages.Package
	Prog    *ssa.Program
	SSAPkgs map[string]*ssa.Package // by import path
	TPkgs   map[string]*types.Package
	DB      *SpecDB
	Funcs   map[string]*ssa.Function // canonical key -> function (repo functions only)
	LoadS   float64
	syntax  []*ast.File
	addrTaken []*ssa.Function
	impNames  map[string]map[string]string
	cellCache map[*ssa.Function]map[string]*cellInfo
	globLen   map[*ssa.Global]int64
	recorded  map[string][]string // recorded variable names per function (-locals-in), for rename tolerance at call sites
}

// Term is an SMT term with its sort and (when known) Go type.
type Term struct {
	S    string
	Sort string
	T    types.Type
	Addr bool // S is the address (Int) of a by-value struct of type T living in memory
	Space string // private component space of a non-escaping local allocation ("" = shared heap)
}

func LoadEngine(repo string, patterns []string, specDir string) (*Engine, error) {
	cfg := &packages.Config{
		Mode:       packages.LoadAllSyntax,
		Dir:        repo,
		BuildFlags: []string{"-tags=verif"},
		Env:        append(os.Environ(), "GOFLAGS=-mod=mod", "GOPROXY=off", "GOSUMDB=off", "GOTOOLCHAIN=local"),
	}
	pkgs, err := packages.Load(cfg, patterns...)
	if err != nil {
		return nil, err
	}
	nerr := 0
	packages.Visit(pkgs, nil, func(p *packages.Package) {
		for _, e := range p.Errors {
			if strings.HasPrefix(p.PkgPath, repoModule) {
				fmt.Fprintf(os.Stderr, "load error: %s: %v\n", p.PkgPath, e)
				nerr++
			}
		}
	})
	if nerr > 0 {
		return nil, fmt.Errorf("%d package load errors", nerr)
	}
	prog, _ := ssautil.AllPackages(pkgs, ssa.InstantiateGenerics|ssa.GlobalDebug)
	e := &Engine{RepoDir: repo, Pkgs: pkgs, Prog: prog, SSAPkgs: map[string]*ssa.Package{}, TPkgs: map[string]*types.Package{}, DB: NewSpecDB(), Funcs: map[string]*ssa.Function{}}
	for _, sp := range prog.AllPackages() {
		if sp.Pkg != nil {
			e.TPkgs[sp.Pkg.Path()] = sp.Pkg
		}
		if strings.HasPrefix(sp.Pkg.Path(), repoModule) {
			sp.Build()
			e.SSAPkgs[sp.Pkg.Path()] = sp
		}
	}
	// index repo functions (incl. methods and anonymous functions)
	for fn := range ssautil.AllFunctions(prog) {
		if fn.Pkg == nil || !strings.HasPrefix(fn.Pkg.Pkg.Path(), repoModule) {
			continue
		}
		if fn.Synthetic != "" {
			continue
		}
		e.Funcs[funcKey(fn)] = fn
	}
	// extern specs
	if specDir != "" {
		files, _ := filepath.Glob(filepath.Join(specDir, "*.spec"))
		sort.Strings(files)
		for _, f := range files {
			if err := e.DB.LoadSpecFile(f, "", false); err != nil {
				return nil, err
			}
		}
	}
	// contract files in repo packages (all loaded repo packages that have one)
	var paths []string
	for p := range e.SSAPkgs {
		paths = append(paths, p)
	}
	sort.Strings(paths)
	for _, p := range paths {
		dir := filepath.Join(repo, strings.TrimPrefix(strings.TrimPrefix(p, repoModule), "/"))
		f := filepath.Join(dir, "zz_contracts_verif.go")
		if _, err := os.Stat(f); err == nil {
			if err := e.DB.LoadSpecFile(f, p, true); err != nil {
				return nil, err
			}
		}
	}
	return e, nil
}

// funcKey: canonical key of an SSA function. Anonymous functions: parentKey$N.
func funcKey(fn *ssa.Function) string {
	if fn.Parent() != nil {
		p := fn.Parent()
		for i, a := range p.AnonFuncs {
			if a == fn {
				return fmt.Sprintf("%s$%d", funcKey(p), i+1)
			}
		}
	}
	return fn.String()
}

func shortKey(k string) string {
	return strings.ReplaceAll(k, repoModule+"/pkg/", "")
}

// ---------- sorts ----------

func isByteSlice(t types.Type) bool {
	if s, ok := t.Underlying().(*types.Slice); ok {
		if b, ok := s.Elem().Underlying().(*types.Basic); ok && (b.Kind() == types.Uint8) {
			return true
		}
	}
	return false
}

func mangle(s string) string {
	var b strings.Builder
	for _, c := range s {
		if (c >= 'a' && c <= 'z') || (c >= 'A' && c <= 'Z') || (c >= '0' && c <= '9') {
			b.WriteRune(c)
		} else {
			b.WriteRune('_')
		}
	}
	return b.String()
}

func typeKey(t types.Type) string {
	s := types.TypeString(t, func(p *types.Package) string { return p.Path() })
	s = strings.ReplaceAll(s, repoModule+"/pkg/", "")
	return unaliasAny(s)
}

// unaliasAny rewrites the predeclared alias `any` (printed by go/types for alias types) to interface{}: []any and
// []interface{} are the same type and must share heap components and type tags.
func unaliasAny(s string) string {
	if !strings.Contains(s, "any") {
		return s
	}
	isW := func(c byte) bool {
		return c == '_' || c == '.' || c >= '0' && c <= '9' || c >= 'a' && c <= 'z' || c >= 'A' && c <= 'Z'
	}
	var b strings.Builder
	for i := 0; i < len(s); {
		if strings.HasPrefix(s[i:], "any") && (i == 0 || !isW(s[i-1])) && (i+3 == len(s) || !isW(s[i+3]) || s[i+3] == '.') && !(i+3 < len(s) && s[i+3] == '.') {
			b.WriteString("interface{}")
			i += 3
			continue
		}
		b.WriteByte(s[i])
		i++
	}
	return b.String()
}

func intRange(t types.Type) (lo, hi string, ok bool) {
	b, isb := t.Underlying().(*types.Basic)
	if !isb {
		return
	}
	switch b.Kind() {
	case types.Int, types.Int64:
		return "(- 9223372036854775808)", "9223372036854775807", true
	case types.Int32, types.UntypedRune:
		return "(- 2147483648)", "2147483647", true
	case types.Int16:
		return "(- 32768)", "32767", true
	case types.Int8:
		return "(- 128)", "127", true
	case types.Uint, types.Uint64, types.Uintptr:
		return "0", "18446744073709551615", true
	case types.Uint32:
		return "0", "4294967295", true
	case types.Uint16:
		return "0", "65535", true
	case types.Uint8:
		return "0", "255", true
	}
	return
}

func isIntType(t types.Type) bool {
	b, ok := t.Underlying().(*types.Basic)
	return ok && b.Info()&types.IsInteger != 0
}

// wrapTerm applies machine wrap-around of type t to an Int term.
func wrapTerm(x string, t types.Type) string {
	b, isb := t.Underlying().(*types.Basic)
	if !isb {
		return x
	}
	switch b.Kind() {
	case types.Int, types.Int64:
		return "(wraps " + x + " 18446744073709551616 9223372036854775808)"
	case types.Int32:
		return "(wraps " + x + " 4294967296 2147483648)"
	case types.Int16:
		return "(wraps " + x + " 65536 32768)"
	case types.Int8:
		return "(wraps " + x + " 256 128)"
	case types.Uint, types.Uint64, types.Uintptr:
		return "(mod " + x + " 18446744073709551616)"
	case types.Uint32:
		return "(mod " + x + " 4294967296)"
	case types.Uint16:
		return "(mod " + x + " 65536)"
	case types.Uint8:
		return "(mod " + x + " 256)"
	}
	return x
}
