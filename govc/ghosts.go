package main

import (
	"fmt"
	"go/ast"
	"go/types"

	"golang.org/x/tools/go/ssa"
)

// innermostLoopOf returns the innermost loop containing block b (nil if none).
func (vc *VC) innermostLoopOf(b *ssa.BasicBlock) *LoopInfo {
	var best *LoopInfo
	for _, li := range vc.loopList {
		if li.blocks[b.Index] {
			if best == nil || len(li.blocks) < len(best.blocks) {
				best = li
			}
		}
	}
	return best
}

// loopIndexTerm: the index of the element being processed by the current iteration of a range loop
// (= rangeindex phi + 1), or the value of the loop's own counter phi if it is not a range loop.
func (vc *VC) loopIndexTerm(li *LoopInfo) (string, bool) {
	if ph, off, _ := vc.countingPhi(li); ph != nil {
		if off == 0 {
			return vc.vals[ph].S, true
		}
		return fmt.Sprintf("(+ %s %d)", vc.vals[ph].S, off), true
	}
	return "", false
}

// phiRoot follows v back through appends/phis inside loop li to the header phi it accumulates into.
func (vc *VC) phiRoot(v ssa.Value, li *LoopInfo, depth int) *ssa.Phi {
	if depth > 8 {
		return nil
	}
	switch x := v.(type) {
	case *ssa.Phi:
		if x.Block().Index == li.header {
			return x
		}
		for _, e := range x.Edges {
			if r := vc.phiRoot(e, li, depth+1); r != nil {
				return r
			}
		}
	case *ssa.Call:
		if b, ok := x.Call.Value.(*ssa.Builtin); ok && b.Name() == "append" {
			return vc.phiRoot(x.Call.Args[0], li, depth+1)
		}
	}
	return nil
}

// appendGhost maintains src/dst ghost arrays for `v = append(v, x)` inside a range loop, keyed by the
// source name of the accumulating slice variable.
func (vc *VC) appendGhost(v *ssa.Call, c *ssa.CallCommon, s, r Term) {
	li := vc.innermostLoopOf(v.Block())
	if li == nil {
		return
	}
	ph := vc.phiRoot(c.Args[0], li, 0)
	if ph == nil || ph.Comment == "" {
		return
	}
	if _, n, ok := constLenSlice(c.Args[1]); !ok || n != 1 {
		return
	}
	k, ok := vc.loopIndexTerm(li)
	if !ok {
		return
	}
	srcK, dstK := "ghost|src|"+ph.Comment, "ghost|dst|"+ph.Comment
	as := "(Array Int Int)"
	vc.setComp(srcK, as, fmt.Sprintf("(store %s (s_len %s) %s)", vc.getComp(srcK, as), s.S, k))
	vc.setComp(dstK, as, fmt.Sprintf("(store %s %s (s_len %s))", vc.getComp(dstK, as), k, s.S))
}

// mapStamp maintains stamp(m, key) = iteration index of the last store to m[key] inside a range loop.
func (vc *VC) mapStamp(x *ssa.MapUpdate, mt *types.Map, m, k string) {
	li := vc.innermostLoopOf(x.Block())
	if li == nil {
		return
	}
	name := vc.sourceNameOf(x.Map)
	if name == "" {
		return
	}
	idx, ok := vc.loopIndexTerm(li)
	if !ok {
		return
	}
	key := "ghost|stamp|" + name
	s := "(Array " + vc.sortOf(mt.Key()) + " Int)"
	vc.setComp(key, s, fmt.Sprintf("(store %s %s %s)", vc.getComp(key, s), k, idx))
}

// sourceNameOf: source-level variable name of an SSA value, through DebugRefs.
func (vc *VC) sourceNameOf(v ssa.Value) string {
	switch x := v.(type) {
	case *ssa.Parameter:
		return x.Name()
	case *ssa.Phi:
		if x.Comment != "" {
			return x.Comment
		}
	}
	for _, b := range vc.fn.Blocks {
		for _, ins := range b.Instrs {
			if d, ok := ins.(*ssa.DebugRef); ok && d.X == v && !d.IsAddr {
				if id, ok := d.Expr.(*ast.Ident); ok {
					return id.Name
				}
			}
		}
	}
	return ""
}

// mapRangeGhost maintains visited(m, key) for `for k := range m` loops: at the loop head visited ⊆ dom(m);
// when Next reports !ok every key of m has been visited.
func (vc *VC) mapRangeGhost(x *ssa.Next, mt *types.Map, m, ok, k string) {
	name := vc.sourceNameOf(x.Iter.(*ssa.Range).X)
	if name == "" {
		return
	}
	key := "ghost|visited|" + name
	ks := vc.sortOf(mt.Key())
	s := "(Array " + ks + " Bool)"
	cur := vc.getComp(key, s)
	dk, ds, _, _ := vc.mapComps(mt)
	dom := fmt.Sprintf("(select %s %s)", vc.getComp(dk, ds), m)
	// exhaustion: !ok ==> every key in dom is visited
	vc.assume(fmt.Sprintf("(=> (not %s) (forall ((q %s)) (! (=> (and (not (= %s 0)) (select %s q)) (select %s q)) :pattern ((select %s q)))))", ok, ks, m, dom, cur, cur))
	// the produced key is new
	vc.assume(fmt.Sprintf("(=> %s (not (select %s %s)))", ok, cur, k))
	vc.setComp(key, s, fmt.Sprintf("(ite %s (store %s %s true) %s)", ok, cur, k, cur))
}

// autoLocalSlices: a slice-typed loop-header phi that starts as nil and is only ever extended by append
// points to an array allocated after function entry (or is nil). Sound by induction on iterations; assumed
// at the loop head so that appends to such an accumulator cannot alias caller-visible arrays.
func (vc *VC) autoLocalSlices(li *LoopInfo, hb *ssa.BasicBlock, preds []*ssa.BasicBlock) {
	li.localSlices = nil
	for _, ins := range hb.Instrs {
		ph, ok := ins.(*ssa.Phi)
		if !ok {
			continue
		}
		if _, isSl := ph.Type().Underlying().(*types.Slice); !isSl || isByteSlice(ph.Type()) {
			continue
		}
		good := true
		for i, p := range hb.Preds {
			e := ph.Edges[i]
			if vc.isBack[[2]int{p.Index, hb.Index}] {
				if vc.phiRoot(e, li, 0) != ph && e != ph {
					good = false
				}
			} else if !vc.isLocalSliceValue(e, 0) {
				good = false
			}
		}
		if good {
			li.localSlices = append(li.localSlices, ph)
		}
	}
}

// isLocalSliceValue: nil constant, or a value built only by appends starting from nil / local accumulators.
func (vc *VC) isLocalSliceValue(v ssa.Value, depth int) bool {
	if depth > 6 {
		return false
	}
	switch x := v.(type) {
	case *ssa.Const:
		return x.Value == nil
	case *ssa.Phi:
		if li, ok := vc.loops[x.Block().Index]; ok {
			for _, l := range li.localSlices {
				if l == x {
					return true
				}
			}
			return false
		}
		for _, e := range x.Edges {
			if !vc.isLocalSliceValue(e, depth+1) {
				return false
			}
		}
		return true
	case *ssa.Call:
		if b, ok := x.Call.Value.(*ssa.Builtin); ok && b.Name() == "append" {
			return vc.isLocalSliceValue(x.Call.Args[0], depth+1)
		}
	case *ssa.Slice:
		// the whole of an array allocated by this function and sliced exactly once (a slice literal)
		if al, ok := x.X.(*ssa.Alloc); ok && al.Heap {
			n := 0
			if refs := al.Referrers(); refs != nil {
				for _, r := range *refs {
					if _, isSl := r.(*ssa.Slice); isSl {
						n++
					}
				}
			}
			return n == 1
		}
	}
	return false
}

// nilAtLoopEntry: a loop-header phi whose every non-back edge is the nil constant.
func (vc *VC) nilAtLoopEntry(ph *ssa.Phi) bool {
	hb := ph.Block()
	if _, isLoop := vc.loops[hb.Index]; !isLoop {
		return false
	}
	n := 0
	for i, p := range hb.Preds {
		if vc.isBack[[2]int{p.Index, hb.Index}] {
			continue
		}
		c, ok := ph.Edges[i].(*ssa.Const)
		if !ok || c.Value != nil {
			return false
		}
		n++
	}
	return n > 0
}
