package main

import (
	"strings"
)

type lemmaJob struct {
	vc  *VC
	o   *Obl
	seq int
}

// lemmaJobs builds stand-alone queries for the named lemmas (spec-level facts proved once by SMT).
func (e *Engine) lemmaJobs(names string) ([]lemmaJob, []string) {
	var out []lemmaJob
	var errs []string
	want := map[string]bool{}
	for _, n := range strings.Split(names, ",") {
		want[strings.TrimSpace(n)] = true
	}
	found := map[string]bool{}
	for i, l := range e.DB.Lemmas {
		if l.Axiom {
			continue
		}
		if !want["all"] && !want[l.Name] {
			continue
		}
		found[l.Name] = true
		vc := &VC{eng: e, key: "lemma"}
		vc.reset(false)
		vc.revealAll = true
		vc.anc = []map[int]bool{{0: true}}
		vc.reach[0] = "true"
		vc.heap = Heap{m: map[string]string{}}
		vc.entryHeap = vc.heap
		if l.Pkg != "" {
			vc.pkg = e.TPkgs[l.Pkg]
		}
		env := &SpecEnv{vc: vc, pkg: vc.pkg, vars: map[string]Term{}, heap: vc.heap, old: vc.heap}
		vc.assertAxioms(env)
		t, err := env.evalBool(l.C.Expr)
		if err != nil {
			errs = append(errs, "lemma "+l.Name+": "+err.Error())
			continue
		}
		if len(vc.strlits) > 0 {
			names := []string{"str_empty"}
			for _, n := range vc.strlits {
				names = append(names, n)
			}
			vc.global("(distinct " + strings.Join(names, " ") + ")")
		}
		o := &Obl{Name: "lemma/" + l.Name, Kind: "lemma", Detail: l.C.Text, blk: 0, idx: 1 << 30, Guard: "true", Cond: t}
		out = append(out, lemmaJob{vc, o, i})
	}
	for n := range want {
		if n != "all" && n != "" && !found[n] {
			errs = append(errs, "lemma not found: "+n)
		}
	}
	return out, errs
}

// assertAxioms adds every axiom of the spec database as a global fact (trusted, listed).
func (vc *VC) assertAxioms(env *SpecEnv) {
	for _, l := range vc.eng.DB.Lemmas {
		if !l.Axiom {
			continue
		}
		e2 := *env
		if l.Pkg != "" {
			if p := vc.eng.TPkgs[l.Pkg]; p != nil {
				e2.pkg = p
			}
		}
		t, err := e2.evalBool(l.C.Expr)
		if err != nil {
			vc.fail("axiom %s: %v", l.Name, err)
		}
		vc.global(t)
		vc.trusted["axiom: "+l.Name] = true
	}
}

// specCalls collects the names of spec functions called in e (syntactically).
func specCalls(e SpecExpr, out map[string]bool) {
	switch n := e.(type) {
	case SCall:
		out[n.Fun] = true
		for _, a := range n.Args {
			specCalls(a, out)
		}
	case SUnary:
		specCalls(n.X, out)
	case SBinary:
		specCalls(n.X, out)
		specCalls(n.Y, out)
	case SIndex:
		specCalls(n.X, out)
		specCalls(n.I, out)
	case SSlice:
		specCalls(n.X, out)
		if n.Lo != nil {
			specCalls(n.Lo, out)
		}
		if n.Hi != nil {
			specCalls(n.Hi, out)
		}
	case SSel:
		specCalls(n.X, out)
	case SQuant:
		specCalls(n.Body, out)
	case SCond:
		specCalls(n.C, out)
		specCalls(n.A, out)
		specCalls(n.B, out)
	}
}

// uninterpCalls: uninterpreted spec functions reachable from e through defined spec functions.
func (e *Engine) uninterpCalls(x SpecExpr) map[string]bool {
	res := map[string]bool{}
	seen := map[string]bool{}
	var walk func(x SpecExpr)
	walk = func(x SpecExpr) {
		cs := map[string]bool{}
		specCalls(x, cs)
		for c := range cs {
			if seen[c] {
				continue
			}
			seen[c] = true
			for _, sf := range e.DB.SpecByName[c] {
				if sf.Body == nil {
					res[c] = true
				} else {
					walk(sf.Body)
				}
			}
		}
	}
	walk(x)
	return res
}

// addRelevantAxioms includes every axiom that mentions an uninterpreted spec function used by this VC.
func (vc *VC) addRelevantAxioms() {
	included := map[string]bool{}
	env := &SpecEnv{vc: vc, pkg: vc.pkg, vars: map[string]Term{}, heap: vc.entryHeap, old: vc.entryHeap}
	for changed := true; changed; {
		changed = false
		for _, l := range vc.eng.DB.Lemmas {
			if !l.Axiom || included[l.Name] {
				continue
			}
			rel := false
			for f := range vc.eng.uninterpCalls(l.C.Expr) {
				if vc.dset["spec_"+f] {
					rel = true
				}
			}
			if !rel {
				continue
			}
			included[l.Name] = true
			changed = true
			e2 := *env
			if l.Pkg != "" {
				if p := vc.eng.TPkgs[l.Pkg]; p != nil {
					e2.pkg = p
				}
			}
			t, err := e2.evalBool(l.C.Expr)
			if err != nil {
				vc.fail("axiom %s: %v", l.Name, err)
			}
			vc.global(t)
			vc.trusted["axiom: "+l.Name] = true
		}
	}
}
