package main

import (
	"encoding/json"
	"go/types"
	"os"
	"sort"

	"golang.org/x/tools/go/ssa"
)

// Rename tolerance. Contracts name parameters, results and (in loop invariants) local variables. When the claimed set
// of a property is generated, the names declared in each function under contract are recorded in declaration order
// (claims/Cxx.locals.json). At check time a spec identifier that no longer resolves is looked up in that record: if the
// variable declared at the same position now has another name (a pure rename), the new name is used. Positions are
// aligned by longest common subsequence, so unrelated additions and removals of locals do not disturb the mapping.

// localNames: parameters, named results and local variables of fn in declaration order.
func localNames(fn *ssa.Function) []string {
	var out []string
	seen := map[types.Object]bool{}
	type ent struct {
		pos  int
		name string
	}
	var ents []ent
	add := func(o types.Object) {
		if o == nil || seen[o] || o.Name() == "_" || o.Name() == "" {
			return
		}
		if _, isVar := o.(*types.Var); !isVar {
			return
		}
		seen[o] = true
		ents = append(ents, ent{int(o.Pos()), o.Name()})
	}
	if fn.Signature != nil {
		if r := fn.Signature.Recv(); r != nil {
			add(r)
		}
		for i := 0; i < fn.Signature.Params().Len(); i++ {
			add(fn.Signature.Params().At(i))
		}
		for i := 0; i < fn.Signature.Results().Len(); i++ {
			add(fn.Signature.Results().At(i))
		}
	}
	lo, hi := 0, 1<<62
	if fn.Syntax() != nil {
		lo, hi = int(fn.Syntax().Pos()), int(fn.Syntax().End())
	}
	for _, b := range fn.Blocks {
		for _, ins := range b.Instrs {
			if d, ok := ins.(*ssa.DebugRef); ok {
				if o := d.Object(); o != nil && int(o.Pos()) >= lo && int(o.Pos()) <= hi {
					add(o)
				}
			}
		}
	}
	sort.SliceStable(ents, func(i, j int) bool { return ents[i].pos < ents[j].pos })
	for _, e := range ents {
		out = append(out, e.name)
	}
	return out
}

// renameMap pairs recorded names with current names declared at the same (LCS-aligned) positions.
func renameMap(rec, cur []string) map[string]string {
	n, m := len(rec), len(cur)
	if n == 0 || m == 0 || n > 400 || m > 400 {
		return nil
	}
	l := make([][]int, n+1)
	for i := range l {
		l[i] = make([]int, m+1)
	}
	for i := n - 1; i >= 0; i-- {
		for j := m - 1; j >= 0; j-- {
			if rec[i] == cur[j] {
				l[i][j] = l[i+1][j+1] + 1
			} else if l[i+1][j] >= l[i][j+1] {
				l[i][j] = l[i+1][j]
			} else {
				l[i][j] = l[i][j+1]
			}
		}
	}
	inCur := map[string]bool{}
	for _, c := range cur {
		inCur[c] = true
	}
	inRec := map[string]bool{}
	for _, r := range rec {
		inRec[r] = true
	}
	out := map[string]string{}
	i, j := 0, 0
	var gr, gc []string
	flush := func() {
		// a gap with the same number of removed and added names, none of which occurs on the other side: renames
		if len(gr) == len(gc) {
			ok := true
			for k := range gr {
				if inCur[gr[k]] || inRec[gc[k]] {
					ok = false
				}
			}
			if ok {
				for k := range gr {
					out[gr[k]] = gc[k]
				}
			}
		}
		gr, gc = nil, nil
	}
	for i < n && j < m {
		switch {
		case rec[i] == cur[j]:
			flush()
			i++
			j++
		case l[i+1][j] >= l[i][j+1]:
			gr = append(gr, rec[i])
			i++
		default:
			gc = append(gc, cur[j])
			j++
		}
	}
	for ; i < n; i++ {
		gr = append(gr, rec[i])
	}
	for ; j < m; j++ {
		gc = append(gc, cur[j])
	}
	flush()
	return out
}

func loadLocals(path string) map[string][]string {
	m := map[string][]string{}
	if path == "" {
		return m
	}
	if data, err := os.ReadFile(path); err == nil {
		json.Unmarshal(data, &m) //nolint:errcheck
	}
	return m
}
