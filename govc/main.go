package main

import (
	"encoding/json"
	"flag"
	"fmt"
	"os"
	"sort"
	"strings"
	"sync"
	"time"

	"golang.org/x/tools/go/ssa"
)

type OblResult struct {
	Func    string        `json:"func"`
	Name    string        `json:"name"` // func-qualified obligation name
	Kind    string        `json:"kind"`
	Status  string        `json:"status"` // discharged | refuted | undecided
	Sites   []SiteResult  `json:"sites"`
	Text    string        `json:"text,omitempty"`
}

type SiteResult struct {
	Pos    string      `json:"pos,omitempty"`
	Detail string      `json:"detail,omitempty"`
	Res    SolveResult `json:"result"`
}

type FuncResult struct {
	Key         string   `json:"key"`
	File        string   `json:"file"`
	HasContract bool     `json:"has_contract"`
	Error       string   `json:"error,omitempty"`
	Unsupported []string `json:"unsupported,omitempty"`
	Trusted     []string `json:"trusted,omitempty"`
	Vacuity     string   `json:"vacuity"` // ok | requires-unsat | n/a
	Canary      string   `json:"canary"`  // refuted (good) | unreachable-return (some return) | all-returns-unreachable (vacuous!) | unknown | n/a
	nReach      int
	nUnreach    int
	NObl        int      `json:"n_obligations"`
	Instrs      int      `json:"ssa_instrs"`
}

type Output struct {
	Funcs       []FuncResult `json:"funcs"`
	Obligations []OblResult  `json:"obligations"`
	Unbound     []string     `json:"unbound_contracts"`
	Skipped     []string     `json:"skipped_unclaimed,omitempty"`
	LoadS       float64      `json:"load_s"`
	SolveS      float64      `json:"solve_s"`
	WallS       float64      `json:"wall_s"`
	Errors      []string     `json:"errors,omitempty"`
}

func main() {
	repo := flag.String("repo", "/repo", "repository root")
	specDir := flag.String("spec", "/verif/govc/spec", "extern spec dir")
	funcs := flag.String("funcs", "", "comma-separated function keys (short form allowed); empty = all with contracts")
	outDir := flag.String("out", "/verif/out/smt", "directory for SMT files")
	outJSON := flag.String("json", "", "result JSON path")
	timeout := flag.Int("timeout", 10, "per-query timeout (s)")
	par := flag.Int("j", 12, "parallel queries")
	lemmas := flag.String("lemmas", "", "comma-separated lemma names to check ('all' = every lemma)")
	dump := flag.String("dump", "", "dump SSA of function key and exit")
	sweep := flag.String("sweep", "", "safety sweep: select every function (with or without contract) whose short key contains this substring ('.' = all)")
	localsIn := flag.String("locals-in", "", "recorded variable names per function (rename tolerance, see locals.go)")
	localsOut := flag.String("locals-out", "", "write the variable names of the selected functions to this file")
	knownFile := flag.String("known", "", "file with every obligation name that existed when the claimed set was recorded: with -only, obligations NOT in this file (new code: new panic sites, new heap writes, new call sites) are solved too")
	onlyFile := flag.String("only", "", "file with obligation names: solve only these (others are generated and listed as skipped)")
	flag.Parse()
	t0 := time.Now()
	eng, err := LoadEngine(*repo, []string{"./pkg/..."}, *specDir)
	if err != nil {
		fmt.Fprintln(os.Stderr, "load:", err)
		os.Exit(3)
	}
	loadS := time.Since(t0).Seconds()
	if *dump != "" {
		for k, fn := range eng.Funcs {
			if shortKey(k) == *dump || k == *dump {
				fn.WriteTo(os.Stdout)
			}
		}
		return
	}
	os.MkdirAll(*outDir, 0o755)
	out := &Output{LoadS: loadS}
	// select functions
	want := map[string]bool{}
	if *funcs != "" {
		for _, f := range strings.Split(*funcs, ",") {
			want[strings.TrimSpace(f)] = true
		}
	}
	var keys []string
	for k := range eng.Funcs {
		sk := shortKey(k)
		if *sweep != "" {
			if strings.Contains(sk, *sweep) && len(eng.Funcs[k].Blocks) > 0 && !strings.Contains(sk, "mocks") {
				keys = append(keys, k)
			}
		} else if len(want) > 0 {
			if want[k] || want[sk] {
				keys = append(keys, k)
			}
		} else if sp := eng.specFor(k); sp != nil && sp.Kind == "func" && !sp.Trusted {
			keys = append(keys, k)
		}
	}
	sort.Strings(keys)
	for w := range want {
		found := false
		for _, k := range keys {
			if k == w || shortKey(k) == w {
				found = true
			}
		}
		if !found {
			out.Errors = append(out.Errors, "function not found in current tree: "+w)
		}
	}
	only := map[string]bool{}
	if *onlyFile != "" {
		if data, err := os.ReadFile(*onlyFile); err == nil {
			for _, l := range strings.Split(string(data), "\n") {
				l = strings.TrimSpace(l)
				if l != "" && !strings.HasPrefix(l, "#") {
					only[l] = true
				}
			}
		}
	}
	known := map[string]bool{}
	if *knownFile != "" {
		if data, err := os.ReadFile(*knownFile); err == nil {
			for _, l := range strings.Split(string(data), "\n") {
				l = strings.TrimSpace(l)
				if l != "" && !strings.HasPrefix(l, "#") {
					known[l] = true
				}
			}
		}
	}
	type job struct {
		vc  *VC
		o   *Obl
		seq int
		neg bool
		tag string // "" | cover | canary
		res SolveResult
	}
	var jobs []*job
	var frs []*FuncResult
	recorded := loadLocals(*localsIn)
	eng.recorded = recorded
	namesNow := map[string][]string{}
	vcs := map[string]*VC{}
	for _, k := range keys {
		fn := eng.Funcs[k]
		sp := eng.specFor(k)
		fr := &FuncResult{Key: shortKey(k), HasContract: sp != nil, Vacuity: "n/a", Canary: "n/a"}
		if fn.Pos().IsValid() {
			p := eng.Prog.Fset.Position(fn.Pos())
			fr.File = fmt.Sprintf("%s:%d", strings.TrimPrefix(p.Filename, eng.RepoDir+"/"), p.Line)
		}
		for _, b := range fn.Blocks {
			fr.Instrs += len(b.Instrs)
		}
		frs = append(frs, fr)
		if sp != nil {
			sp.Bound = true
		}
		vc := NewVC(eng, fn, sp)
		namesNow[shortKey(k)] = localNames(fn)
		vc.renames = map[string]string{}
		if rec, ok := recorded[shortKey(k)]; ok {
			for a, b := range renameMap(rec, namesNow[shortKey(k)]) {
				vc.renames[a] = b
			}
		}
		// closures also see the enclosing functions' variables
		for p, pk := fn.Parent(), shortKey(k); p != nil; p = p.Parent() {
			if i := strings.LastIndex(pk, "$"); i > 0 {
				pk = pk[:i]
			}
			if rec, ok := recorded[pk]; ok {
				for a, b := range renameMap(rec, localNames(p)) {
					if _, dup := vc.renames[a]; !dup {
						vc.renames[a] = b
					}
				}
			}
		}
		if err := vc.Generate(); err != nil {
			fr.Error = err.Error()
			continue
		}
		vcs[k] = vc
		fr.Unsupported = dedup(vc.unsupp)
		for t := range vc.trusted {
			fr.Trusted = append(fr.Trusted, t)
		}
		sort.Strings(fr.Trusted)
		fr.NObl = len(vc.obls)
		for i, o := range vc.obls {
			if len(only) > 0 && !only[shortKey(k)+"/"+o.Name] && (len(known) == 0 || known[shortKey(k)+"/"+o.Name]) {
				out.Skipped = append(out.Skipped, shortKey(k)+"/"+o.Name)
				continue
			}
			jobs = append(jobs, &job{vc: vc, o: o, seq: i, neg: true})
		}
		// vacuity: requires satisfiable (cover) and a canary 'false' at every return must be refuted
		if sp != nil {
			jobs = append(jobs, &job{vc: vc, o: &Obl{Name: "cover/requires", blk: 0, idx: vc.entrySeq, Guard: "true", Cond: "true"}, seq: 900, neg: false, tag: "cover"})
			for _, b := range fn.Blocks {
				if len(b.Instrs) == 0 {
					continue
				}
				if _, ok := b.Instrs[len(b.Instrs)-1].(*ssa.Return); ok {
					if p, ok := vc.rpoPos[b.Index]; ok {
						jobs = append(jobs, &job{vc: vc, o: &Obl{Name: "canary/return", blk: p, idx: 1 << 40, Guard: vc.reach[p], Cond: "false"}, seq: 901 + b.Index, neg: true, tag: "canary"})
					}
				}
			}
		}
	}
	// lemmas
	var lemmaJobs []*job
	if *lemmas != "" {
		lj, errs := eng.lemmaJobs(*lemmas)
		out.Errors = append(out.Errors, errs...)
		for _, l := range lj {
			lemmaJobs = append(lemmaJobs, &job{vc: l.vc, o: l.o, seq: l.seq, neg: true})
		}
		jobs = append(jobs, lemmaJobs...)
	}
	ts := time.Now()
	var wg sync.WaitGroup
	sem := make(chan struct{}, *par)
	for _, j := range jobs {
		wg.Add(1)
		sem <- struct{}{}
		go func(j *job) {
			defer wg.Done()
			defer func() { <-sem }()
			file, err := j.vc.WriteQuery(j.o, *outDir, j.seq, j.neg)
			if err != nil {
				j.res = SolveResult{Status: "error", Raw: err.Error()}
				return
			}
			to := *timeout
			if j.tag != "" && to > 3 {
				to = 3
			}
			j.res = Solve(file, to)
			if j.tag == "" && j.res.Status != "sat" && j.res.Status != "unsat" && j.vc.useRoot && j.o.Kind != "frame" {
				if f2, err := j.vc.WriteQuery(j.o, *outDir, j.seq, j.neg, true); err == nil {
					r2 := Solve(f2, 3)
					if r2.Status == "sat" {
						j.res.Model = r2.Model
						j.res.Candidate = true
					}
				}
			}
			if (j.res.Status == "sat" || j.res.Candidate) && j.tag == "" {
				j.res.Values = parseValues(j.res.Model, j.vc.replay)
				if k := strings.Index(j.res.Model, "VALUES-BEGIN"); k >= 0 {
					j.res.Model = j.res.Model[:k]
				}
				if len(j.res.Model) > 20000 {
					j.res.Model = j.res.Model[:20000] + "\n...truncated"
				}
			} else {
				j.res.Model = ""
			}
		}(j)
	}
	wg.Wait()
	out.SolveS = time.Since(ts).Seconds()
	// aggregate
	agg := map[string]*OblResult{}
	var order []string
	frByKey := map[string]*FuncResult{}
	for _, fr := range frs {
		frByKey[fr.Key] = fr
	}
	for _, j := range jobs {
		fk := shortKey(j.vc.key)
		if j.tag == "cover" {
			if fr := frByKey[fk]; fr != nil {
				switch j.res.Status {
				case "sat":
					fr.Vacuity = "ok"
				case "unsat":
					fr.Vacuity = "requires-unsat"
				default:
					fr.Vacuity = "unknown"
				}
			}
			continue
		}
		if j.tag == "canary" {
			if fr := frByKey[fk]; fr != nil {
				switch j.res.Status {
				case "sat":
					fr.nReach++
					if fr.Canary != "discharged" {
						fr.Canary = "refuted"
					}
				case "unsat":
					fr.nUnreach++
					if fr.Canary == "n/a" {
						fr.Canary = "unreachable-return"
					}
				default:
					fr.nReach++ // not shown unreachable
					if fr.Canary == "n/a" {
						fr.Canary = "unknown"
					}
				}
			}
			continue
		}
		name := fk + "/" + j.o.Name
		if j.vc.fn == nil {
			name = j.o.Name
		}
		r := agg[name]
		if r == nil {
			r = &OblResult{Func: fk, Name: name, Kind: j.o.Kind, Status: "discharged", Text: j.o.Detail}
			agg[name] = r
			order = append(order, name)
		}
		r.Sites = append(r.Sites, SiteResult{Pos: j.o.Pos, Detail: j.o.Detail, Res: j.res})
		switch j.res.Status {
		case "unsat":
		case "sat":
			r.Status = "refuted"
		default:
			if r.Status != "refuted" {
				r.Status = "undecided"
			}
		}
	}
	for _, n := range order {
		out.Obligations = append(out.Obligations, *agg[n])
	}
	for _, fr := range frs {
		out.Funcs = append(out.Funcs, *fr)
	}
	for k, sp := range eng.DB.Funcs {
		if sp.Kind == "func" && !sp.Bound {
			if _, ok := eng.Funcs[k]; !ok {
				out.Unbound = append(out.Unbound, shortKey(k))
			}
		}
	}
	sort.Strings(out.Unbound)
	if *localsOut != "" {
		if data, err := json.MarshalIndent(namesNow, "", " "); err == nil {
			os.WriteFile(*localsOut, data, 0o644) //nolint:errcheck
		}
	}
	for _, fr := range out.Funcs {
		if fr.nUnreach > 0 && fr.nReach == 0 {
			fr.Canary = "all-returns-unreachable"
		}
	}
	out.WallS = time.Since(t0).Seconds()
	data, _ := json.MarshalIndent(out, "", " ")
	if *outJSON != "" {
		os.WriteFile(*outJSON, data, 0o644)
	}
	// human summary
	nd, nr, nu := 0, 0, 0
	for _, o := range out.Obligations {
		switch o.Status {
		case "discharged":
			nd++
		case "refuted":
			nr++
			fmt.Printf("REFUTED   %s\n", o.Name)
		default:
			nu++
			fmt.Printf("UNDECIDED %s\n", o.Name)
		}
	}
	for _, fr := range out.Funcs {
		if fr.Error != "" {
			fmt.Printf("ERROR     %s: %s\n", fr.Key, fr.Error)
		}
		if fr.nUnreach > 0 && fr.nReach == 0 {
			fr.Canary = "all-returns-unreachable"
		}
		if fr.Vacuity == "requires-unsat" || fr.Canary == "unreachable-return" || fr.Canary == "all-returns-unreachable" {
			fmt.Printf("VACUITY   %s: cover=%s canary=%s\n", fr.Key, fr.Vacuity, fr.Canary)
		}
	}
	for _, e := range out.Errors {
		fmt.Printf("ERROR     %s\n", e)
	}
	fmt.Printf("funcs=%d obligations=%d discharged=%d refuted=%d undecided=%d load=%.1fs solve=%.1fs\n", len(out.Funcs), len(out.Obligations), nd, nr, nu, out.LoadS, out.SolveS)
}

func dedup(s []string) []string {
	m := map[string]bool{}
	var out []string
	for _, x := range s {
		if !m[x] {
			m[x] = true
			out = append(out, x)
		}
	}
	sort.Strings(out)
	return out
}

// specFor finds the contract of a function key, including closures (parent$N).
func (e *Engine) specFor(key string) *FuncSpec {
	if sp, ok := e.DB.Funcs[key]; ok {
		return sp
	}
	if k := strings.LastIndex(key, "$"); k >= 0 {
		parent := e.specFor(key[:k])
		if parent == nil {
			return nil
		}
		var n int
		fmt.Sscanf(key[k+1:], "%d", &n)
		if c, ok := parent.Closures[n]; ok {
			c.Key = key
			e.DB.Funcs[key] = c
			return c
		}
	}
	return nil
}
