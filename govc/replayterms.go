package main

import (
	"fmt"
	"go/types"
	"regexp"
	"strings"
)

type ReplayTerm struct {
	Name string
	Term string
	Sort string
}

// buildReplayTerms lists the input terms whose model values describe a concrete call:
// parameters, scalar fields of pointed-to structs (entry heap), slice lengths and the first elements.
func (vc *VC) buildReplayTerms() {
	if vc.fn == nil {
		return
	}
	h := vc.entryHeap
	var add func(name, term string, t types.Type, addr bool, depth int)
	add = func(name, term string, t types.Type, addr bool, depth int) {
		if depth > 3 || len(vc.replay) > 160 {
			return
		}
		if addr {
			st := t.Underlying().(*types.Struct)
			for i := 0; i < st.NumFields(); i++ {
				f := st.Field(i)
				ck := fieldComp(t, f)
				if isStruct(f.Type()) {
					vc.comp(ck, "")
					add(name+"."+f.Name(), vc.subRef(ck, term), f.Type(), true, depth+1)
				} else {
					add(name+"."+f.Name(), fmt.Sprintf("(select %s %s)", vc.getCompIn(h, ck, vc.fieldSort(f)), term), f.Type(), false, depth+1)
				}
			}
			return
		}
		switch u := t.Underlying().(type) {
		case *types.Pointer:
			vc.replay = append(vc.replay, ReplayTerm{name, term, "Int"})
			if isStruct(u.Elem()) && depth < 2 {
				add(name, term, u.Elem(), true, depth+1)
			}
		case *types.Slice:
			if isByteSlice(t) {
				vc.replay = append(vc.replay, ReplayTerm{name, term, "Str"}, ReplayTerm{name + ".len", fmt.Sprintf("(strlen %s)", term), "Int"})
				return
			}
			vc.replay = append(vc.replay, ReplayTerm{name + ".len", fmt.Sprintf("(s_len %s)", term), "Int"},
				ReplayTerm{name + ".nil", fmt.Sprintf("(= (s_arr %s) 0)", term), "Bool"})
			if isStruct(u.Elem()) {
				return
			}
			es := vc.sortOf(u.Elem())
			ck := elemComp(u.Elem())
			for _, ip := range vc.fn.Params {
				if depth == 0 && vc.sortOf(ip.Type()) == "Int" && isIntType(ip.Type()) {
					et := fmt.Sprintf("(select (select %s (s_arr %s)) (idx (s_off %s) %s))", vc.getCompIn(h, ck, "(Array Int (Array Int "+es+"))"), term, term, vc.vals[ip].S)
					add(fmt.Sprintf("%s[@%s]", name, ip.Name()), et, u.Elem(), false, depth+1)
				}
			}
			for i := 0; i < 3 && depth < 2; i++ {
				et := fmt.Sprintf("(select (select %s (s_arr %s)) (idx (s_off %s) %d))", vc.getCompIn(h, ck, "(Array Int (Array Int "+es+"))"), term, term, i)
				add(fmt.Sprintf("%s[%d]", name, i), et, u.Elem(), false, depth+1)
			}
		case *types.Struct:
			_ = u
			// by-value struct parameter: selectors
			s := vc.structSort(t)
			for i := 0; i < u.NumFields(); i++ {
				f := u.Field(i)
				add(name+"."+f.Name(), fmt.Sprintf("(%s_%s %s)", s, mangle(f.Name()), term), f.Type(), false, depth+1)
			}
		case *types.Basic:
			switch vc.sortOf(t) {
			case "Str":
				vc.replay = append(vc.replay, ReplayTerm{name, term, "Str"}, ReplayTerm{name + ".len", fmt.Sprintf("(strlen %s)", term), "Int"})
			case "Int", "Bool":
				vc.replay = append(vc.replay, ReplayTerm{name, term, vc.sortOf(t)})
			}
		case *types.Interface, *types.Map, *types.Signature:
			vc.replay = append(vc.replay, ReplayTerm{name, term, "Int"})
		}
	}
	for _, p := range vc.fn.Params {
		add(p.Name(), vc.vals[p].S, p.Type(), false, 0)
	}
	for _, fv := range vc.fn.FreeVars {
		el := fv.Type().Underlying().(*types.Pointer).Elem()
		a := vc.pointeeAddr(vc.vals[fv].S, fv.Type())
		if !isStruct(el) {
			add(fv.Name(), vc.loadAddrIn(h, a), el, false, 0)
		}
	}
}

var negRe = regexp.MustCompile(`^\(- (\d+)\)$`)

// parseValues extracts the get-value answers that follow the model in solver output.
func parseValues(out string, terms []ReplayTerm) map[string]string {
	res := map[string]string{}
	marker := "\n;;VALUES\n"
	k := strings.Index(out, "VALUES-BEGIN")
	if k < 0 {
		_ = marker
		return res
	}
	rest := out[k+len("VALUES-BEGIN"):]
	// each answer is a balanced s-expression ((term value))
	i := 0
	for _, t := range terms {
		// find next '(' at depth 0
		for i < len(rest) && rest[i] != '(' {
			i++
		}
		if i >= len(rest) {
			break
		}
		depth, j := 0, i
		for ; j < len(rest); j++ {
			if rest[j] == '(' {
				depth++
			} else if rest[j] == ')' {
				depth--
				if depth == 0 {
					break
				}
			}
		}
		expr := rest[i : j+1]
		i = j + 1
		if strings.HasPrefix(expr, "(error") {
			continue
		}
		// strip outer "((" term " " value "))": the term text is known
		inner := strings.TrimSpace(expr[1 : len(expr)-1]) // (term value)
		inner = strings.TrimSpace(inner[1 : len(inner)-1])
		tt := strings.Join(strings.Fields(t.Term), " ")
		in := strings.Join(strings.Fields(inner), " ")
		val := ""
		if strings.HasPrefix(in, tt) {
			val = strings.TrimSpace(in[len(tt):])
		} else {
			// fallback: value is the last s-expr
			val = lastSexpr(in)
		}
		if m := negRe.FindStringSubmatch(val); m != nil {
			val = "-" + m[1]
		}
		res[t.Name] = val
	}
	return res
}

func lastSexpr(s string) string {
	s = strings.TrimSpace(s)
	if s == "" {
		return s
	}
	if s[len(s)-1] != ')' {
		k := strings.LastIndexAny(s, " )")
		return s[k+1:]
	}
	depth := 0
	for i := len(s) - 1; i >= 0; i-- {
		if s[i] == ')' {
			depth++
		} else if s[i] == '(' {
			depth--
			if depth == 0 {
				return s[i:]
			}
		}
	}
	return s
}
