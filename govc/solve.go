package main

import (
	"bytes"
	"context"
	"fmt"
	"os"
	"os/exec"
	"path/filepath"
	"strings"
	"sync"
	"time"
)

const preamble = `(set-option :produce-models true)
(set-logic ALL)
(declare-sort Str 0)
(declare-fun strlen (Str) Int)
(declare-const str_empty Str)
(assert (= (strlen str_empty) 0))
(declare-datatypes ((Slice 0)) (((mk_slice (s_arr Int) (s_off Int) (s_len Int) (s_cap Int)))))
(declare-fun typeof (Int) Int)
(declare-fun idx (Int Int) Int)
(declare-fun root (Int) Int)
(assert (forall ((a Int) (b Int)) (! (= (idx a b) (+ a b)) :pattern ((idx a b)))))
(define-fun wraps ((x Int) (m Int) (h Int)) Int (- (mod (+ x h) m) h))
(define-fun go_div ((x Int) (y Int)) Int (ite (>= x 0) (ite (> y 0) (div x y) (- (div x (- y)))) (ite (> y 0) (- (div (- x) y)) (div (- x) (- y)))))
(define-fun go_rem ((x Int) (y Int)) Int (- x (* y (go_div x y))))
`

type SolveResult struct {
	Status string  `json:"status"` // unsat | sat | unknown | timeout | error
	Solver string  `json:"solver"`
	Time   float64 `json:"time_s"`
	Model  string  `json:"model,omitempty"`
	Values map[string]string `json:"values,omitempty"`
	Candidate bool `json:"candidate_model,omitempty"` // model of a relaxed query (ownership axioms dropped): only a replay can confirm it
	Raw    string  `json:"raw,omitempty"`
	File   string  `json:"smt_file"`
}

type solverDef struct {
	name string
	args func(file string, tsec int) []string
}

var solvers = []solverDef{
	{"z3-new", func(f string, t int) []string { return []string{"z3-new", fmt.Sprintf("-T:%d", t), f} }},
	{"cvc5", func(f string, t int) []string {
		return []string{"cvc5", fmt.Sprintf("--tlimit=%d", t*1000), "--produce-models", f}
	}},
	{"z3", func(f string, t int) []string { return []string{"z3", fmt.Sprintf("-T:%d", t), f} }},
}

func runSolver(ctx context.Context, sd solverDef, file string, tsec int) (status, out string) {
	a := sd.args(file, tsec)
	cmd := exec.CommandContext(ctx, a[0], a[1:]...)
	var buf bytes.Buffer
	cmd.Stdout = &buf
	cmd.Stderr = &buf
	_ = cmd.Run()
	out = buf.String()
	first := strings.TrimSpace(strings.SplitN(out, "\n", 2)[0])
	switch first {
	case "sat", "unsat":
		return first, out
	case "unknown":
		return "unknown", out
	case "timeout":
		return "timeout", out
	}
	if ctx.Err() != nil {
		return "timeout", out
	}
	if strings.Contains(out, "timeout") {
		return "timeout", out
	}
	return "error", out
}

// Solve races the solvers on one query: unsat from any discharges, sat from any refutes.
func Solve(file string, tsec int) SolveResult {
	start := time.Now()
	ctx, cancel := context.WithTimeout(context.Background(), time.Duration(tsec+2)*time.Second)
	defer cancel()
	type res struct {
		solver, status, out string
	}
	ch := make(chan res, len(solvers))
	launched := 0
	launch := func(sd solverDef) {
		launched++
		go func() {
			st, out := runSolver(ctx, sd, file, tsec)
			ch <- res{sd.name, st, out}
		}()
	}
	launch(solvers[0])
	var others sync.Once
	startOthers := func() {
		others.Do(func() {
			for _, sd := range solvers[1:] {
				launch(sd)
			}
		})
	}
	timer := time.NewTimer(1500 * time.Millisecond)
	defer timer.Stop()
	var all []res
	done := 0
	for {
		select {
		case <-timer.C:
			startOthers()
		case r := <-ch:
			done++
			all = append(all, r)
			if r.status == "sat" || r.status == "unsat" {
				cancel()
				sr := SolveResult{Status: r.status, Solver: r.solver, Time: time.Since(start).Seconds(), File: file}
				if r.status == "sat" {
					sr.Model = r.out
				}
				return sr
			}
			startOthers()
			if done == len(solvers) && done == launched {
				st := "unknown"
				allTO := true
				var raw []string
				for _, x := range all {
					if x.status != "timeout" {
						allTO = false
					}
					raw = append(raw, x.solver+": "+x.status+" "+trunc(x.out, 200))
				}
				if allTO {
					st = "timeout"
				}
				return SolveResult{Status: st, Solver: "all", Time: time.Since(start).Seconds(), Raw: strings.Join(raw, " | "), File: file}
			}
		}
	}
}

// WriteQuery writes the SMT query for obligation o of vc. If negate is false, the query asks for
// satisfiability of guard ∧ cond (cover check).
func (vc *VC) WriteQuery(o *Obl, dir string, seq int, negate bool, relaxed ...bool) (string, error) {
	var b strings.Builder
	b.WriteString(preamble)
	for _, d := range vc.decls {
		b.WriteString(d)
		b.WriteByte('\n')
	}
	needRoot := vc.useRoot || o.Kind == "frame"
	if len(relaxed) > 0 && relaxed[0] {
		needRoot = false
	}
	if needRoot {
		b.WriteString("(assert (forall ((x Int)) (! (=> (> x 0) (= (root x) x)) :pattern ((root x)))))\n")
		b.WriteString("(assert (= (root 0) 0))\n") // nil owns nothing (elems(nil slice) in a modifies clause stores at array 0)
	}
	for _, f := range vc.facts {
		if f.root && !needRoot {
			continue
		}
		if f.blk >= 0 {
			if !vc.anc[o.blk][f.blk] {
				continue
			}
			if f.blk == o.blk && f.idx >= o.idx {
				continue
			}
		}
		b.WriteString("(assert ")
		b.WriteString(f.text)
		b.WriteString(")\n")
	}
	g := o.Guard
	if g == "" {
		g = "true"
	}
	if negate {
		fmt.Fprintf(&b, "(assert (and %s (not %s)))\n", g, o.Cond)
	} else {
		fmt.Fprintf(&b, "(assert (and %s %s))\n", g, o.Cond)
	}
	b.WriteString("(check-sat)\n(get-model)\n(echo \"VALUES-BEGIN\")\n")
	for _, rt := range vc.replay {
		fmt.Fprintf(&b, "(get-value (%s))\n", rt.Term)
	}
	name := fmt.Sprintf("%s__%03d_%s.smt2", mangle(shortKey(vc.key)), seq, mangle(o.Name))
	if len(relaxed) > 0 && relaxed[0] {
		name = "relaxed_" + name
	}
	if len(name) > 180 {
		name = name[:170] + fmt.Sprintf("_%03d.smt2", seq)
	}
	path := filepath.Join(dir, name)
	return path, os.WriteFile(path, []byte(b.String()), 0o644)
}
