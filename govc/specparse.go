package main

// Parser for the //@ contract language: contract files (comment-only Go files in /repo,
// build tag verif) and extern spec files (/verif/govc/spec/*.spec, same syntax without "//@").

import (
	"fmt"
	"os"
	"strings"
	"unicode"
)

// ---------- expressions ----------

type SpecExpr interface{}

type (
	SIdent  struct{ Name string }
	SInt    struct{ Val string }
	SStr    struct{ Val string }
	SBool   struct{ Val bool }
	SNil    struct{}
	SUnary  struct{ Op string; X SpecExpr }
	SBinary struct{ Op string; X, Y SpecExpr }
	SCall   struct{ Fun string; Args []SpecExpr } // spec function / builtin / conversion
	SIndex  struct{ X, I SpecExpr }
	SSlice  struct{ X, Lo, Hi SpecExpr }
	SSel    struct{ X SpecExpr; Sel string }
	SQuant  struct {
		Forall bool
		Vars   []SBinder
		Body   SpecExpr
	}
	SBinder struct{ Name, Type string }
	SCond   struct{ C, A, B SpecExpr } // cond(c,a,b)
)

type tok struct {
	k string // id int str op eof
	s string
}

func lexSpec(s string) ([]tok, error) {
	var out []tok
	i := 0
	for i < len(s) {
		c := s[i]
		switch {
		case c == ' ' || c == '\t' || c == '\n':
			i++
		case unicode.IsLetter(rune(c)) || c == '_' || c == '#':
			j := i + 1
			for j < len(s) && (unicode.IsLetter(rune(s[j])) || unicode.IsDigit(rune(s[j])) || s[j] == '_') {
				j++
			}
			out = append(out, tok{"id", s[i:j]})
			i = j
		case unicode.IsDigit(rune(c)):
			j := i + 1
			for j < len(s) && (unicode.IsDigit(rune(s[j])) || s[j] == 'x' || (s[j] >= 'a' && s[j] <= 'f') || (s[j] >= 'A' && s[j] <= 'F')) {
				j++
			}
			out = append(out, tok{"int", s[i:j]})
			i = j
		case c == '"':
			j := i + 1
			for j < len(s) && s[j] != '"' {
				if s[j] == '\\' {
					j++
				}
				j++
			}
			if j >= len(s) {
				return nil, fmt.Errorf("unterminated string in %q", s)
			}
			out = append(out, tok{"str", s[i+1 : j]})
			i = j + 1
		default:
			ops := []string{"<==>", "==>", "::", "<<", "&&", "||", "==", "!=", "<=", ">=", "+", "-", "*", "/", "%", "<", ">", "!", "(", ")", "[", "]", ",", ".", ":", "{", "}"}
			matched := false
			for _, op := range ops {
				if strings.HasPrefix(s[i:], op) {
					out = append(out, tok{"op", op})
					i += len(op)
					matched = true
					break
				}
			}
			if !matched {
				return nil, fmt.Errorf("bad char %q in spec %q", c, s)
			}
		}
	}
	out = append(out, tok{"eof", ""})
	return out, nil
}

type sparser struct {
	t   []tok
	p   int
	src string
}

func (p *sparser) peek() tok { return p.t[p.p] }
func (p *sparser) next() tok { t := p.t[p.p]; p.p++; return t }
func (p *sparser) isOp(s string) bool {
	return p.t[p.p].k == "op" && p.t[p.p].s == s
}
func (p *sparser) expectOp(s string) error {
	if !p.isOp(s) {
		return fmt.Errorf("expected %q at token %d (%q) in %q", s, p.p, p.t[p.p].s, p.src)
	}
	p.p++
	return nil
}

func ParseSpecExpr(s string) (SpecExpr, error) {
	t, err := lexSpec(s)
	if err != nil {
		return nil, err
	}
	p := &sparser{t: t, src: s}
	e, err := p.parseIff()
	if err != nil {
		return nil, err
	}
	if p.peek().k != "eof" {
		return nil, fmt.Errorf("trailing tokens at %q in %q", p.peek().s, s)
	}
	return e, nil
}

func (p *sparser) parseIff() (SpecExpr, error) {
	x, err := p.parseImpl()
	if err != nil {
		return nil, err
	}
	for p.isOp("<==>") {
		p.next()
		y, err := p.parseImpl()
		if err != nil {
			return nil, err
		}
		x = SBinary{"<==>", x, y}
	}
	return x, nil
}

func (p *sparser) parseImpl() (SpecExpr, error) {
	x, err := p.parseOr()
	if err != nil {
		return nil, err
	}
	if p.isOp("==>") {
		p.next()
		y, err := p.parseImpl() // right assoc
		if err != nil {
			return nil, err
		}
		return SBinary{"==>", x, y}, nil
	}
	return x, nil
}

func (p *sparser) parseOr() (SpecExpr, error) {
	x, err := p.parseAnd()
	if err != nil {
		return nil, err
	}
	for p.isOp("||") {
		p.next()
		y, err := p.parseAnd()
		if err != nil {
			return nil, err
		}
		x = SBinary{"||", x, y}
	}
	return x, nil
}

func (p *sparser) parseAnd() (SpecExpr, error) {
	x, err := p.parseCmp()
	if err != nil {
		return nil, err
	}
	for p.isOp("&&") {
		p.next()
		y, err := p.parseCmp()
		if err != nil {
			return nil, err
		}
		x = SBinary{"&&", x, y}
	}
	return x, nil
}

func (p *sparser) parseCmp() (SpecExpr, error) {
	x, err := p.parseAdd()
	if err != nil {
		return nil, err
	}
	for _, op := range []string{"==", "!=", "<=", ">=", "<", ">"} {
		if p.isOp(op) {
			p.next()
			y, err := p.parseAdd()
			if err != nil {
				return nil, err
			}
			return SBinary{op, x, y}, nil
		}
	}
	if p.peek().k == "id" && p.peek().s == "in" {
		p.next()
		y, err := p.parseAdd()
		if err != nil {
			return nil, err
		}
		return SBinary{"in", x, y}, nil
	}
	return x, nil
}

func (p *sparser) parseAdd() (SpecExpr, error) {
	x, err := p.parseMul()
	if err != nil {
		return nil, err
	}
	for p.isOp("+") || p.isOp("-") {
		op := p.next().s
		y, err := p.parseMul()
		if err != nil {
			return nil, err
		}
		x = SBinary{op, x, y}
	}
	return x, nil
}

func (p *sparser) parseMul() (SpecExpr, error) {
	x, err := p.parseUnary()
	if err != nil {
		return nil, err
	}
	for p.isOp("*") || p.isOp("/") || p.isOp("%") || p.isOp("<<") {
		op := p.next().s
		y, err := p.parseUnary()
		if err != nil {
			return nil, err
		}
		x = SBinary{op, x, y}
	}
	return x, nil
}

func (p *sparser) parseUnary() (SpecExpr, error) {
	if p.isOp("!") || p.isOp("-") {
		op := p.next().s
		x, err := p.parseUnary()
		if err != nil {
			return nil, err
		}
		return SUnary{op, x}, nil
	}
	return p.parsePostfix()
}

// parseType reads a type in a binder/signature: [*|[]]* ident[.ident]
func (p *sparser) parseType() (string, error) {
	s := ""
	for {
		if p.isOp("*") {
			p.next()
			s += "*"
		} else if p.isOp("[") {
			p.next()
			if err := p.expectOp("]"); err != nil {
				return "", err
			}
			s += "[]"
		} else {
			break
		}
	}
	if p.peek().k != "id" {
		return "", fmt.Errorf("expected type name at %q in %q", p.peek().s, p.src)
	}
	if p.peek().s == "map" && p.t[p.p+1].k == "op" && p.t[p.p+1].s == "[" {
		p.next()
		p.next()
		kt, err := p.parseType()
		if err != nil {
			return "", err
		}
		if err := p.expectOp("]"); err != nil {
			return "", err
		}
		vt, err := p.parseType()
		if err != nil {
			return "", err
		}
		return s + "map[" + kt + "]" + vt, nil
	}
	s += p.next().s
	if p.isOp(".") {
		p.next()
		if p.peek().k != "id" {
			return "", fmt.Errorf("expected type name after '.' in %q", p.src)
		}
		s += "." + p.next().s
	}
	return s, nil
}

func (p *sparser) parseBinders() ([]SBinder, error) {
	var out []SBinder
	for {
		var names []string
		for {
			if p.peek().k != "id" {
				return nil, fmt.Errorf("expected binder name in %q", p.src)
			}
			names = append(names, p.next().s)
			if p.isOp(",") {
				p.next()
				continue
			}
			break
		}
		ty, err := p.parseType()
		if err != nil {
			return nil, err
		}
		for _, n := range names {
			out = append(out, SBinder{n, ty})
		}
		if p.isOp(",") {
			p.next()
			continue
		}
		break
	}
	return out, nil
}

func (p *sparser) parsePrimary() (SpecExpr, error) {
	t := p.peek()
	switch t.k {
	case "int":
		p.next()
		return SInt{t.s}, nil
	case "str":
		p.next()
		return SStr{t.s}, nil
	case "id":
		switch t.s {
		case "true":
			p.next()
			return SBool{true}, nil
		case "false":
			p.next()
			return SBool{false}, nil
		case "nil":
			p.next()
			return SNil{}, nil
		case "forall", "exists":
			p.next()
			bs, err := p.parseBinders()
			if err != nil {
				return nil, err
			}
			if err := p.expectOp("::"); err != nil {
				return nil, err
			}
			body, err := p.parseIff()
			if err != nil {
				return nil, err
			}
			return SQuant{t.s == "forall", bs, body}, nil
		}
		p.next()
		// call?
		if p.isOp("(") {
			p.next()
			var args []SpecExpr
			for !p.isOp(")") {
				a, err := p.parseIff()
				if err != nil {
					return nil, err
				}
				args = append(args, a)
				if p.isOp(",") {
					p.next()
				}
			}
			p.next()
			if t.s == "cond" && len(args) == 3 {
				return SCond{args[0], args[1], args[2]}, nil
			}
			return SCall{t.s, args}, nil
		}
		return SIdent{t.s}, nil
	case "op":
		if t.s == "(" {
			p.next()
			e, err := p.parseIff()
			if err != nil {
				return nil, err
			}
			if err := p.expectOp(")"); err != nil {
				return nil, err
			}
			return e, nil
		}
	}
	return nil, fmt.Errorf("unexpected token %q in %q", t.s, p.src)
}

func (p *sparser) parsePostfix() (SpecExpr, error) {
	x, err := p.parsePrimary()
	if err != nil {
		return nil, err
	}
	for {
		switch {
		case p.isOp("."):
			p.next()
			if p.peek().k != "id" {
				return nil, fmt.Errorf("expected selector in %q", p.src)
			}
			sel := p.next().s
			// qualified call pkg.f(...) is not supported; qualified const pkg.Name handled at translation
			x = SSel{x, sel}
		case p.isOp("["):
			p.next()
			var lo, hi SpecExpr
			if !p.isOp(":") {
				lo, err = p.parseIff()
				if err != nil {
					return nil, err
				}
			}
			if p.isOp(":") {
				p.next()
				if !p.isOp("]") {
					hi, err = p.parseIff()
					if err != nil {
						return nil, err
					}
				}
				if err := p.expectOp("]"); err != nil {
					return nil, err
				}
				x = SSlice{x, lo, hi}
			} else {
				if err := p.expectOp("]"); err != nil {
					return nil, err
				}
				x = SIndex{x, lo}
			}
		default:
			return x, nil
		}
	}
}

// ---------- contract files ----------

type Clause struct {
	Text string
	Expr SpecExpr
	Line int
	File string
}

type LoopSpec struct {
	Ordinal    int
	Invariants []Clause
}

type FuncSpec struct {
	Key      string // canonical key: "pkgpath.Func", "(*pkgpath.T).M", "pkgpath.I.M"
	Kind     string // func | iface | extern
	Pkg      string // package path of the contract file (scope for names)
	Params   []string
	Results  []string
	Requires []Clause
	Ensures  []Clause
	Assumed  []Clause // postconditions assumed at call sites but not checked against the body (listed as assumptions)
	Modifies []Clause // l-value expressions or ghost names; "*" text = everything
	Loops    map[int]*LoopSpec
	Closures map[int]*FuncSpec
	Relation string // closure: spec relation name; RelOver: captured slice var
	RelOver  string
	Sets     []GhostSet // ghost assignments performed at function entry ("sets g = expr")
	Reveals  []string   // opaque spec functions whose definitions this function's VC may use
	AtCall   map[string][]Clause // callee short name -> assertions checked in this function at every call of that callee
	Trusted  bool // contract is assumed, body not verified (extern/iface always)
	File     string
	Line     int
	Bound    bool // set when bound to a function of the current tree
}

type GhostSet struct {
	Name string
	C    Clause
}

type SpecFunc struct {
	Opaque  bool // body hidden (treated as uninterpreted) except in VCs that reveal it and in lemmas
	Name    string
	Params  []SBinder
	Ret     string
	Body    SpecExpr // nil = uninterpreted
	Pkg     string
	File    string
	Line    int
	BodyTxt string
}

type Lemma struct {
	Name  string
	Axiom bool
	C     Clause
	Pkg   string
}

type GhostVar struct {
	Name, Type, Pkg string
}

type SpecDB struct {
	Funcs     map[string]*FuncSpec
	SpecFuncs map[string]*SpecFunc // key: <package path>::<name>
	SpecByName map[string][]*SpecFunc
	Lemmas    []*Lemma
	Ghosts    map[string]*GhostVar
	Files     []string
}

func NewSpecDB() *SpecDB {
	return &SpecDB{Funcs: map[string]*FuncSpec{}, SpecFuncs: map[string]*SpecFunc{}, SpecByName: map[string][]*SpecFunc{}, Ghosts: map[string]*GhostVar{}}
}

var clauseKeywords = map[string]bool{"spec": true, "axiom": true, "lemma": true, "ghost": true, "func": true, "iface": true,
	"extern": true, "params": true, "results": true, "requires": true, "ensures": true, "modifies": true, "loop": true,
	"closure": true, "invariant": true, "relation": true, "trusted": true, "end": true, "sets": true, "reveals": true, "assumes": true, "atcall": true}

// canonKey turns "Name", "(*T).M", "(T).M", "I.M" into a key qualified by pkg, unless already qualified (contains '/').
func canonKey(pkg, name string) string {
	if strings.Contains(name, "/") {
		// short repo-relative form: api/protocol.X -> <module>/pkg/api/protocol.X
		first := strings.TrimLeft(name, "(*")
		seg := first[:strings.Index(first, "/")]
		if !strings.Contains(seg, ".") {
			return strings.Replace(name, first, repoModule+"/pkg/"+first, 1)
		}
		return name
	}
	if pkg == "" {
		return name
	}
	if strings.HasPrefix(name, "(*") {
		return "(*" + pkg + "." + name[2:]
	}
	if strings.HasPrefix(name, "(") {
		return "(" + pkg + "." + name[1:]
	}
	// stdlib qualified names like sort.Slice have a dot and no slash: an extern for them is written with kind extern
	return pkg + "." + name
}

// LoadSpecFile parses one contract file. pkg is the import path the file belongs to ("" for extern spec files,
// whose names must be fully qualified). If stripPrefix, only lines starting with //@ are considered.
func (db *SpecDB) LoadSpecFile(path, pkg string, stripPrefix bool) error {
	data, err := os.ReadFile(path)
	if err != nil {
		return err
	}
	db.Files = append(db.Files, path)
	type rawLine struct {
		text string
		n    int
	}
	var lines []rawLine
	for i, l := range strings.Split(string(data), "\n") {
		t := strings.TrimSpace(l)
		if stripPrefix {
			if !strings.HasPrefix(t, "//@") {
				continue
			}
			t = strings.TrimSpace(t[3:])
		} else if strings.HasPrefix(t, "#") || strings.HasPrefix(t, "//") {
			continue
		}
		if t == "" {
			continue
		}
		// strip trailing comment " // ..."
		if k := strings.Index(t, " // "); k >= 0 {
			t = strings.TrimSpace(t[:k])
		}
		lines = append(lines, rawLine{t, i + 1})
	}
	// join continuation lines
	type stmt struct {
		kw, rest string
		n        int
	}
	var stmts []stmt
	for _, l := range lines {
		w := l.text
		kw := w
		if k := strings.IndexAny(w, " \t"); k >= 0 {
			kw = w[:k]
		}
		if clauseKeywords[kw] {
			stmts = append(stmts, stmt{kw, strings.TrimSpace(w[len(kw):]), l.n})
		} else {
			if len(stmts) == 0 {
				return fmt.Errorf("%s:%d: continuation without statement", path, l.n)
			}
			stmts[len(stmts)-1].rest += " " + w
		}
	}
	var cur *FuncSpec    // current top-level func
	var target *FuncSpec // where requires/ensures go (func or closure)
	var curLoop *LoopSpec
	mkClause := func(s stmt) (Clause, error) {
		e, err := ParseSpecExpr(s.rest)
		if err != nil {
			return Clause{}, fmt.Errorf("%s:%d: %v", path, s.n, err)
		}
		return Clause{Text: s.rest, Expr: e, Line: s.n, File: path}, nil
	}
	for _, s := range stmts {
		switch s.kw {
		case "reveals":
			if target == nil {
				return fmt.Errorf("%s:%d: reveals outside func", path, s.n)
			}
			target.Reveals = append(target.Reveals, splitNames(s.rest)...)
		case "spec":
			opaque := false
			if strings.HasPrefix(s.rest, "opaque ") {
				opaque = true
				s.rest = strings.TrimSpace(s.rest[len("opaque "):])
			}
			sf, err := parseSpecFuncDecl(s.rest)
			if err != nil {
				return fmt.Errorf("%s:%d: %v", path, s.n, err)
			}
			sf.Pkg, sf.File, sf.Line = pkg, path, s.n
			sf.Opaque = opaque
			if old, ok := db.SpecFuncs[pkg+"::"+sf.Name]; ok {
				return fmt.Errorf("%s:%d: spec %s already defined at %s:%d", path, s.n, sf.Name, old.File, old.Line)
			}
			db.SpecFuncs[pkg+"::"+sf.Name] = sf
			db.SpecByName[sf.Name] = append(db.SpecByName[sf.Name], sf)
		case "axiom", "lemma":
			k := strings.Index(s.rest, ":")
			if k < 0 {
				return fmt.Errorf("%s:%d: lemma needs 'name: expr'", path, s.n)
			}
			name := strings.TrimSpace(s.rest[:k])
			body := strings.TrimSpace(s.rest[k+1:])
			e, err := ParseSpecExpr(body)
			if err != nil {
				return fmt.Errorf("%s:%d: %v", path, s.n, err)
			}
			db.Lemmas = append(db.Lemmas, &Lemma{Name: name, Axiom: s.kw == "axiom", C: Clause{Text: body, Expr: e, Line: s.n, File: path}, Pkg: pkg})
		case "ghost":
			f := strings.Fields(s.rest)
			if len(f) != 2 {
				return fmt.Errorf("%s:%d: ghost needs 'name type'", path, s.n)
			}
			db.Ghosts[f[0]] = &GhostVar{f[0], f[1], pkg}
		case "func", "iface", "extern":
			name := s.rest
			key := name
			if s.kw != "extern" {
				key = canonKey(pkg, name)
			}
			if _, ok := db.Funcs[key]; ok {
				return fmt.Errorf("%s:%d: duplicate contract for %s", path, s.n, key)
			}
			cur = &FuncSpec{Key: key, Kind: s.kw, Pkg: pkg, Loops: map[int]*LoopSpec{}, Closures: map[int]*FuncSpec{}, File: path, Line: s.n}
			if s.kw != "func" {
				cur.Trusted = true
			}
			db.Funcs[key] = cur
			target = cur
			curLoop = nil
		case "closure":
			if cur == nil {
				return fmt.Errorf("%s:%d: closure outside func", path, s.n)
			}
			var n int
			fmt.Sscanf(s.rest, "%d", &n)
			c := &FuncSpec{Key: fmt.Sprintf("%s$%d", cur.Key, n), Kind: "func", Pkg: pkg, Loops: map[int]*LoopSpec{}, Closures: map[int]*FuncSpec{}, File: path, Line: s.n}
			cur.Closures[n] = c
			target = c
			curLoop = nil
		case "end": // end of closure block: back to the enclosing func
			target = cur
			curLoop = nil
		case "loop":
			if target == nil {
				return fmt.Errorf("%s:%d: loop outside func", path, s.n)
			}
			var n int
			fmt.Sscanf(s.rest, "%d", &n)
			curLoop = &LoopSpec{Ordinal: n}
			target.Loops[n] = curLoop
		case "params":
			target.Params = splitNames(s.rest)
		case "results":
			target.Results = splitNames(s.rest)
		case "trusted":
			target.Trusted = true
		case "sets":
			k := strings.Index(s.rest, "=")
			if k < 0 || target == nil {
				return fmt.Errorf("%s:%d: sets needs 'ghost = expr'", path, s.n)
			}
			name := strings.TrimSpace(s.rest[:k])
			body := strings.TrimSpace(s.rest[k+1:])
			e, err := ParseSpecExpr(body)
			if err != nil {
				return fmt.Errorf("%s:%d: %v", path, s.n, err)
			}
			target.Sets = append(target.Sets, GhostSet{Name: name, C: Clause{Text: body, Expr: e, Line: s.n, File: path}})
		case "relation":
			f := strings.Fields(s.rest)
			if len(f) != 3 || f[1] != "over" {
				return fmt.Errorf("%s:%d: relation needs 'R over slicevar'", path, s.n)
			}
			target.Relation, target.RelOver = f[0], f[2]
		case "assumes":
			if target == nil {
				return fmt.Errorf("%s:%d: clause outside func", path, s.n)
			}
			c, err := mkClause(s)
			if err != nil {
				return err
			}
			target.Assumed = append(target.Assumed, c)
		case "atcall":
			// atcall <callee> <expr>: intermediate assertion of the enclosing function at each call of <callee>; the
			// expression sees the caller's variables at that point and the callee's parameter names (bound to the arguments)
			if target == nil {
				return fmt.Errorf("%s:%d: atcall outside func", path, s.n)
			}
			k := strings.IndexAny(s.rest, " \t")
			if k < 0 {
				return fmt.Errorf("%s:%d: atcall needs '<callee> <expr>'", path, s.n)
			}
			callee := s.rest[:k]
			s2 := s
			s2.rest = strings.TrimSpace(s.rest[k:])
			c, err := mkClause(s2)
			if err != nil {
				return err
			}
			if target.AtCall == nil {
				target.AtCall = map[string][]Clause{}
			}
			target.AtCall[callee] = append(target.AtCall[callee], c)
		case "requires", "ensures", "invariant":
			if target == nil {
				return fmt.Errorf("%s:%d: clause outside func", path, s.n)
			}
			c, err := mkClause(s)
			if err != nil {
				return err
			}
			switch s.kw {
			case "requires":
				target.Requires = append(target.Requires, c)
			case "ensures":
				target.Ensures = append(target.Ensures, c)
			case "invariant":
				if curLoop == nil {
					return fmt.Errorf("%s:%d: invariant outside loop", path, s.n)
				}
				curLoop.Invariants = append(curLoop.Invariants, c)
			}
		case "modifies":
			if target == nil {
				return fmt.Errorf("%s:%d: clause outside func", path, s.n)
			}
			for _, part := range splitTop(s.rest) {
				part = strings.TrimSpace(part)
				if part == "*" || part == "pointees" {
					target.Modifies = append(target.Modifies, Clause{Text: part, Line: s.n, File: path})
					continue
				}
				e, err := ParseSpecExpr(part)
				if err != nil {
					return fmt.Errorf("%s:%d: %v", path, s.n, err)
				}
				target.Modifies = append(target.Modifies, Clause{Text: part, Expr: e, Line: s.n, File: path})
			}
		}
	}
	return nil
}

func splitNames(s string) []string {
	var out []string
	for _, p := range strings.Split(s, ",") {
		p = strings.TrimSpace(p)
		if p != "" {
			out = append(out, p)
		}
	}
	return out
}

// splitTop splits on commas at bracket depth 0.
func splitTop(s string) []string {
	var out []string
	depth, start := 0, 0
	for i, c := range s {
		switch c {
		case '(', '[':
			depth++
		case ')', ']':
			depth--
		case ',':
			if depth == 0 {
				out = append(out, s[start:i])
				start = i + 1
			}
		}
	}
	out = append(out, s[start:])
	return out
}

// parseSpecFuncDecl: name(params) ret [{ body }]
func parseSpecFuncDecl(s string) (*SpecFunc, error) {
	body := ""
	if k := strings.Index(s, "{"); k >= 0 {
		e := strings.LastIndex(s, "}")
		if e < k {
			return nil, fmt.Errorf("unbalanced braces in spec %q", s)
		}
		body = strings.TrimSpace(s[k+1 : e])
		s = strings.TrimSpace(s[:k])
	}
	t, err := lexSpec(s)
	if err != nil {
		return nil, err
	}
	p := &sparser{t: t, src: s}
	if p.peek().k != "id" {
		return nil, fmt.Errorf("spec name expected in %q", s)
	}
	sf := &SpecFunc{Name: p.next().s}
	if err := p.expectOp("("); err != nil {
		return nil, err
	}
	if !p.isOp(")") {
		bs, err := p.parseBinders()
		if err != nil {
			return nil, err
		}
		sf.Params = bs
	}
	if err := p.expectOp(")"); err != nil {
		return nil, err
	}
	ty, err := p.parseType()
	if err != nil {
		return nil, err
	}
	sf.Ret = ty
	if body != "" {
		e, err := ParseSpecExpr(body)
		if err != nil {
			return nil, err
		}
		sf.Body = e
		sf.BodyTxt = body
	}
	return sf, nil
}

// LookupSpec resolves a spec function name as seen from package pkg: the package's own definition first,
// otherwise the unique definition of that name anywhere.
func (db *SpecDB) LookupSpec(name, pkg string) (*SpecFunc, error) {
	if sf, ok := db.SpecFuncs[pkg+"::"+name]; ok {
		return sf, nil
	}
	l := db.SpecByName[name]
	switch len(l) {
	case 0:
		return nil, fmt.Errorf("unknown spec function %q", name)
	case 1:
		return l[0], nil
	}
	return nil, fmt.Errorf("spec function %q is defined in several packages; define it in %s or rename", name, pkg)
}
