package main

// Evaluation of spec expressions to SMT terms in a given program state.

import (
	"fmt"
	"go/ast"
	"go/constant"
	"go/types"
	"sort"
	"strings"

	"golang.org/x/tools/go/packages"
	"golang.org/x/tools/go/ssa"
)

type SpecEnv struct {
	vc      *VC
	pkg     *types.Package // scope for type names and constants
	vars    map[string]Term
	heap    Heap
	old     Heap
	resolve func(name string) (Term, bool) // fallback resolver (locals through DebugRefs, phis)
	depth   int
	nbound  int
	renaming bool
	cells    bool // names of captured variables of vc.fn's closure tree are in scope
}

func (e *SpecEnv) child() *SpecEnv {
	n := *e
	n.vars = map[string]Term{}
	for k, v := range e.vars {
		n.vars[k] = v
	}
	return &n
}

// entryEnv: environment of the function under verification at entry (params, free vars, ghosts).
func (vc *VC) entryEnv() *SpecEnv {
	env := &SpecEnv{vc: vc, pkg: vc.pkg, vars: map[string]Term{}, heap: vc.entryHeap, old: vc.entryHeap, cells: true}
	for _, p := range vc.fn.Params {
		env.vars[p.Name()] = vc.vals[p]
	}
	if vc.spec != nil && len(vc.spec.Params) == len(vc.fn.Params) {
		for i, p := range vc.fn.Params {
			env.vars[vc.spec.Params[i]] = vc.vals[p]
		}
	}
	fn := vc.fn
	env.resolve = func(name string) (Term, bool) {
		if strings.HasSuffix(name, "_0") { // <param>_0: the value of a parameter at function entry (parameters are mutable)
			base := strings.TrimSuffix(name, "_0")
			if to, ok := vc.renames[base]; ok { // the parameter was renamed since the claims were recorded (locals.go)
				base = to
			}
			for _, p := range fn.Params {
				if p.Name() == base {
					return vc.vals[p], true
				}
			}
		}
		for _, fv := range fn.FreeVars {
			if fv.Name() == name {
				// captured variable: its current value lives in a cell
				a := vc.pointeeAddr(vc.vals[fv].S, fv.Type())
				elem := fv.Type().Underlying().(*types.Pointer).Elem()
				return Term{S: vc.loadAddrIn(env.heap, a), Sort: vc.sortOf(elem), T: elem}, true
			}
		}
		return Term{}, false
	}
	return env
}

func (e *SpecEnv) evalBool(x SpecExpr) (string, error) {
	t, err := e.eval(x)
	if err != nil {
		return "", err
	}
	if t.Sort != "Bool" {
		return "", fmt.Errorf("expected Bool, got %s for %v", t.Sort, x)
	}
	return t.S, nil
}

func (e *SpecEnv) lookupType(name string) (types.Type, error) {
	ptr, sl := 0, 0
	n := name
	var wrap []byte
	for {
		if strings.HasPrefix(n, "*") {
			n = n[1:]
			ptr++
			wrap = append(wrap, '*')
		} else if strings.HasPrefix(n, "[]") {
			n = n[2:]
			sl++
			wrap = append(wrap, 's')
		} else {
			break
		}
	}
	var base types.Type
	if strings.HasPrefix(n, "map[") {
		depth, k := 0, -1
		for i := 3; i < len(n); i++ {
			if n[i] == '[' {
				depth++
			} else if n[i] == ']' {
				depth--
				if depth == 0 {
					k = i
					break
				}
			}
		}
		if k < 0 {
			return nil, fmt.Errorf("bad map type %q", name)
		}
		kt, err := e.lookupType(n[4:k])
		if err != nil {
			return nil, err
		}
		vt, err := e.lookupType(n[k+1:])
		if err != nil {
			return nil, err
		}
		base = types.NewMap(kt, vt)
		n = ""
	}
	switch n {
	case "Z", "int":
		base = types.Typ[types.Int]
	case "bytes":
		base = types.NewSlice(types.Typ[types.Uint8])
	case "any":
		base = types.NewInterfaceType(nil, nil)
	case "error":
		base = types.Universe.Lookup("error").Type()
	default:
		if o := types.Universe.Lookup(n); o != nil {
			if tn, ok := o.(*types.TypeName); ok {
				base = tn.Type()
			}
		}
	}
	if base == nil && n != "" {
		pk := e.pkg
		tn := n
		if k := strings.Index(n, "."); k >= 0 {
			pk = e.findPkg(n[:k])
			tn = n[k+1:]
			if pk == nil {
				return nil, fmt.Errorf("unknown package %q in type %q", n[:k], name)
			}
		}
		if pk == nil {
			return nil, fmt.Errorf("no package scope for type %q", name)
		}
		o := pk.Scope().Lookup(tn)
		if o == nil {
			return nil, fmt.Errorf("unknown type %q", name)
		}
		base = o.Type()
	}
	for i := len(wrap) - 1; i >= 0; i-- {
		if wrap[i] == '*' {
			base = types.NewPointer(base)
		} else {
			base = types.NewSlice(base)
		}
	}
	return base, nil
}

// findPkg resolves a package name as used in the scope package's imports, then globally if unique.
func (e *SpecEnv) findPkg(name string) *types.Package {
	if e.pkg != nil {
		// names as the package's own source files see them (import aliases included)
		if m := e.vc.eng.importNames(e.pkg.Path()); m != nil {
			if path, ok := m[name]; ok {
				if p := e.vc.eng.TPkgs[path]; p != nil {
					return p
				}
			}
		}
		if e.pkg.Name() == name {
			return e.pkg
		}
	}
	var cands []*types.Package
	for _, p := range e.vc.eng.TPkgs {
		if p.Name() == name {
			cands = append(cands, p)
		}
	}
	sort.Slice(cands, func(a, b int) bool {
		ia, ib := strings.Contains(cands[a].Path(), "/internal/"), strings.Contains(cands[b].Path(), "/internal/")
		if ia != ib {
			return !ia // non-internal packages first
		}
		ra, rb := strings.HasPrefix(cands[a].Path(), repoModule), strings.HasPrefix(cands[b].Path(), repoModule)
		if ra != rb {
			return ra
		}
		return cands[a].Path() < cands[b].Path()
	})
	if len(cands) > 0 {
		return cands[0]
	}
	return nil
}

func constTerm(vc *VC, c *types.Const) (Term, bool) {
	switch c.Val().Kind() {
	case constant.String:
		return Term{S: vc.strLit(constant.StringVal(c.Val())), Sort: "Str", T: c.Type()}, true
	case constant.Int:
		s := c.Val().ExactString()
		if strings.HasPrefix(s, "-") {
			s = "(- " + s[1:] + ")"
		}
		return Term{S: s, Sort: "Int", T: c.Type()}, true
	case constant.Bool:
		return Term{S: c.Val().String(), Sort: "Bool", T: c.Type()}, true
	}
	return Term{}, false
}

func (e *SpecEnv) ident(name string) (Term, error) {
	if t, ok := e.vars[name]; ok {
		return t, nil
	}
	if e.cells && e.vc.fn.Parent() != nil {
		if t, ok := e.vc.cellValue(name, e.heap); ok {
			return t, nil
		}
	}
	if e.resolve != nil {
		if t, ok := e.resolve(name); ok {
			return t, nil
		}
	}
	if e.cells && e.vc.fn.Parent() == nil {
		if t, ok := e.vc.cellValue(name, e.heap); ok {
			return t, nil
		}
	}
	if g, ok := e.vc.eng.DB.Ghosts[name]; ok {
		ty, err := e.lookupType(g.Type)
		if err != nil {
			return Term{}, err
		}
		s := e.vc.sortOf(ty)
		return Term{S: e.vc.getCompIn(e.heap, "G|"+name, s), Sort: s, T: ty}, nil
	}
	if e.pkg != nil {
		if o := e.pkg.Scope().Lookup(name); o != nil {
			if c, ok := o.(*types.Const); ok {
				if t, ok := constTerm(e.vc, c); ok {
					return t, nil
				}
			}
			if v, ok := o.(*types.Var); ok {
				// package-level variable: a cell at the global's address
				gn := "glob_" + mangle(shortKey(e.pkg.Path()+"."+name))
				e.vc.declConst(gn, "Int")
				a := &Addr{kind: "cell", comp: cellComp(v.Type()), base: gn, typ: v.Type()}
				return Term{S: e.vc.loadAddrIn(e.heap, a), Sort: e.vc.sortOf(v.Type()), T: v.Type()}, nil
			}
		}
	}
	// a variable that was renamed since the claimed set was generated (see locals.go)
	if to, ok := e.vc.renames[name]; ok && to != name && !e.renaming {
		e.renaming = true
		t, err := e.ident(to)
		e.renaming = false
		if err == nil {
			e.vc.trusted[fmt.Sprintf("contract name %q resolved to the renamed variable %q (same declaration position)", name, to)] = true
			return t, nil
		}
	}
	return Term{}, fmt.Errorf("unknown identifier %q", name)
}

// selectField: x.name where x is a pointer to struct, an in-memory struct address, or a struct value.
func (e *SpecEnv) selectField(x Term, name string) (Term, error) {
	vc := e.vc
	if x.T == nil {
		return Term{}, fmt.Errorf("selector .%s on untyped term %s", name, x.S)
	}
	t := x.T
	var pk *types.Package
	if n, ok := derefNamed(t); ok && n.Obj() != nil {
		pk = n.Obj().Pkg()
	}
	obj, path, _ := types.LookupFieldOrMethod(t, true, pk, name)
	fv, ok := obj.(*types.Var)
	if !ok || fv == nil {
		return Term{}, fmt.Errorf("no field %q in %s", name, t)
	}
	cur := x
	for _, idx := range path {
		ct := cur.T
		var st types.Type
		inMem := false
		if p, ok := ct.Underlying().(*types.Pointer); ok && !cur.Addr {
			st = p.Elem()
			inMem = true
		} else if cur.Addr {
			st = ct
			inMem = true
		} else {
			st = ct
		}
		sst, ok := st.Underlying().(*types.Struct)
		if !ok {
			return Term{}, fmt.Errorf("selector on non-struct %s", st)
		}
		f := sst.Field(idx)
		if inMem {
			ck := cur.Space + fieldComp(st, f)
			if isStruct(f.Type()) {
				vc.comp(ck, "")
				cur = Term{S: vc.subRef(ck, cur.S), Sort: "Int", T: f.Type(), Addr: true, Space: cur.Space}
			} else {
				cur = Term{S: fmt.Sprintf("(select %s %s)", vc.getCompIn(e.heap, ck, vc.fieldSort(f)), cur.S), Sort: vc.sortOf(f.Type()), T: f.Type()}
				if e.nbound == 0 {
					vc.global(vc.rangeFact(cur.S, f.Type()))
				}
			}
		} else {
			cur = Term{S: fmt.Sprintf("(%s_%s %s)", vc.structSort(st), mangle(f.Name()), cur.S), Sort: vc.sortOf(f.Type()), T: f.Type()}
		}
	}
	return cur, nil
}

func derefNamed(t types.Type) (*types.Named, bool) {
	if p, ok := t.Underlying().(*types.Pointer); ok {
		t = p.Elem()
	}
	n, ok := t.(*types.Named)
	return n, ok
}

func (e *SpecEnv) materialize(t Term) Term {
	if t.Addr {
		return Term{S: e.vc.loadStructAt(e.heap, t.S, t.T, t.Space), Sort: e.vc.structSort(t.T), T: t.T}
	}
	return t
}

func (e *SpecEnv) eval(x SpecExpr) (Term, error) {
	vc := e.vc
	switch n := x.(type) {
	case SInt:
		return Term{S: n.Val, Sort: "Int", T: types.Typ[types.UntypedInt]}, nil
	case SStr:
		s := n.Val
		if u, err := unquote("\"" + s + "\""); err == nil {
			s = u
		}
		return Term{S: vc.strLit(s), Sort: "Str", T: types.Typ[types.String]}, nil
	case SBool:
		return Term{S: fmt.Sprint(n.Val), Sort: "Bool", T: types.Typ[types.Bool]}, nil
	case SNil:
		return Term{S: "nil", Sort: "Nil"}, nil
	case SIdent:
		return e.ident(n.Name)
	case SSel:
		// qualified constant pkg.Name?
		if id, ok := n.X.(SIdent); ok {
			if _, isVar := e.vars[id.Name]; !isVar {
				known := false
				if e.resolve != nil {
					_, known = e.resolve(id.Name)
				}
				if !known {
					if pk := e.findPkg(id.Name); pk != nil {
						if o := pk.Scope().Lookup(n.Sel); o != nil {
							if c, ok := o.(*types.Const); ok {
								if t, ok := constTerm(vc, c); ok {
									return t, nil
								}
							}
							if v, ok := o.(*types.Var); ok {
								gn := "glob_" + mangle(shortKey(pk.Path()+"."+n.Sel))
								vc.declConst(gn, "Int")
								a := &Addr{kind: "cell", comp: cellComp(v.Type()), base: gn, typ: v.Type()}
								return Term{S: vc.loadAddrIn(e.heap, a), Sort: vc.sortOf(v.Type()), T: v.Type()}, nil
							}
						}
					}
				}
			}
		}
		xt, err := e.eval(n.X)
		if err != nil {
			return Term{}, err
		}
		return e.selectField(xt, n.Sel)
	case SUnary:
		t, err := e.eval(n.X)
		if err != nil {
			return Term{}, err
		}
		if n.Op == "!" {
			return Term{S: "(not " + t.S + ")", Sort: "Bool", T: t.T}, nil
		}
		return Term{S: "(- " + t.S + ")", Sort: t.Sort, T: t.T}, nil
	case SCond:
		c, err := e.evalBool(n.C)
		if err != nil {
			return Term{}, err
		}
		a, err := e.eval(n.A)
		if err != nil {
			return Term{}, err
		}
		b, err := e.eval(n.B)
		if err != nil {
			return Term{}, err
		}
		a, b = e.unifyNil(a, b)
		return Term{S: fmt.Sprintf("(ite %s %s %s)", c, a.S, b.S), Sort: a.Sort, T: a.T}, nil
	case SBinary:
		return e.binary(n)
	case SIndex:
		xt, err := e.eval(n.X)
		if err != nil {
			return Term{}, err
		}
		it, err := e.eval(n.I)
		if err != nil {
			return Term{}, err
		}
		return e.index(xt, it)
	case SSlice:
		xt, err := e.eval(n.X)
		if err != nil {
			return Term{}, err
		}
		lo, hi := "0", ""
		if n.Lo != nil {
			t, err := e.eval(n.Lo)
			if err != nil {
				return Term{}, err
			}
			lo = t.S
		}
		if xt.Sort == "Slice" {
			hi = fmt.Sprintf("(s_len %s)", xt.S)
		} else {
			hi = fmt.Sprintf("(strlen %s)", xt.S)
		}
		if n.Hi != nil {
			t, err := e.eval(n.Hi)
			if err != nil {
				return Term{}, err
			}
			hi = t.S
		}
		if xt.Sort == "Slice" {
			return Term{S: fmt.Sprintf("(mk_slice (s_arr %s) (+ (s_off %s) %s) (- %s %s) (- (s_cap %s) %s))", xt.S, xt.S, lo, hi, lo, xt.S, lo), Sort: "Slice", T: xt.T}, nil
		}
		vc.declare("(declare-fun substr (Str Int Int) Str)", "substr")
		return Term{S: fmt.Sprintf("(substr %s %s %s)", xt.S, lo, hi), Sort: "Str", T: xt.T}, nil
	case SQuant:
		ne := e.child()
		ne.nbound++
		var bs, guards []string
		for _, b := range n.Vars {
			ty, err := e.lookupType(b.Type)
			if err != nil {
				return Term{}, err
			}
			(*vc.ctr)++
			name := fmt.Sprintf("q_%s_%d", mangle(b.Name), (*vc.ctr))
			s := vc.sortOf(ty)
			ne.vars[b.Name] = Term{S: name, Sort: s, T: ty}
			bs = append(bs, fmt.Sprintf("(%s %s)", name, s))
			if b.Type != "Z" && b.Type != "int" {
				if rf := vc.rangeFact(name, ty); rf != "true" && s == "Int" {
					guards = append(guards, rf)
				}
			}
		}
		body, err := ne.evalBool(n.Body)
		if err != nil {
			return Term{}, err
		}
		q := "forall"
		if !n.Forall {
			q = "exists"
		}
		if len(guards) > 0 {
			g := "(and " + strings.Join(guards, " ") + ")"
			if n.Forall {
				body = fmt.Sprintf("(=> %s %s)", g, body)
			} else {
				body = fmt.Sprintf("(and %s %s)", g, body)
			}
		}
		return Term{S: fmt.Sprintf("(%s (%s) %s)", q, strings.Join(bs, " "), body), Sort: "Bool"}, nil
	case SCall:
		return e.call(n)
	}
	return Term{}, fmt.Errorf("unsupported spec expression %T", x)
}

func (e *SpecEnv) unifyNil(a, b Term) (Term, Term) {
	nilOf := func(o Term) Term {
		switch o.Sort {
		case "Slice":
			return Term{S: "(mk_slice 0 0 0 0)", Sort: "Slice", T: o.T}
		case "Str":
			return Term{S: "str_empty", Sort: "Str", T: o.T}
		default:
			return Term{S: "0", Sort: "Int", T: o.T}
		}
	}
	if a.Sort == "Nil" && b.Sort != "Nil" {
		a = nilOf(b)
	}
	if b.Sort == "Nil" && a.Sort != "Nil" {
		b = nilOf(a)
	}
	return a, b
}

func (e *SpecEnv) binary(n SBinary) (Term, error) {
	vc := e.vc
	a, err := e.eval(n.X)
	if err != nil {
		return Term{}, err
	}
	b, err := e.eval(n.Y)
	if err != nil {
		return Term{}, err
	}
	boolT := types.Typ[types.Bool]
	switch n.Op {
	case "&&":
		return Term{S: fmt.Sprintf("(and %s %s)", a.S, b.S), Sort: "Bool", T: boolT}, nil
	case "||":
		return Term{S: fmt.Sprintf("(or %s %s)", a.S, b.S), Sort: "Bool", T: boolT}, nil
	case "==>":
		return Term{S: fmt.Sprintf("(=> %s %s)", a.S, b.S), Sort: "Bool", T: boolT}, nil
	case "<==>":
		return Term{S: fmt.Sprintf("(= %s %s)", a.S, b.S), Sort: "Bool", T: boolT}, nil
	case "==", "!=":
		var eq string
		if a.Sort == "Slice" && b.Sort == "Nil" {
			eq = fmt.Sprintf("(= (s_arr %s) 0)", a.S)
		} else if b.Sort == "Slice" && a.Sort == "Nil" {
			eq = fmt.Sprintf("(= (s_arr %s) 0)", b.S)
		} else {
			a, b = e.unifyNil(a, b)
			a, b = e.materialize(a), e.materialize(b)
			if a.Sort != b.Sort {
				return Term{}, fmt.Errorf("sort mismatch in %s: %s vs %s (%v)", n.Op, a.Sort, b.Sort, n)
			}
			eq = fmt.Sprintf("(= %s %s)", a.S, b.S)
		}
		if n.Op == "!=" {
			eq = "(not " + eq + ")"
		}
		return Term{S: eq, Sort: "Bool", T: boolT}, nil
	case "<", "<=", ">", ">=":
		if a.Sort != "Int" || b.Sort != "Int" {
			return Term{}, fmt.Errorf("comparison %s on %s,%s", n.Op, a.Sort, b.Sort)
		}
		return Term{S: fmt.Sprintf("(%s %s %s)", n.Op, a.S, b.S), Sort: "Bool", T: boolT}, nil
	case "+":
		if a.Sort == "Str" {
			vc.declare("(declare-fun strcat (Str Str) Str)", "strcat")
			t := fmt.Sprintf("(strcat %s %s)", a.S, b.S)
			return Term{S: t, Sort: "Str", T: a.T}, nil
		}
		return Term{S: fmt.Sprintf("(+ %s %s)", a.S, b.S), Sort: "Int", T: a.T}, nil
	case "-", "*":
		return Term{S: fmt.Sprintf("(%s %s %s)", n.Op, a.S, b.S), Sort: "Int", T: a.T}, nil
	case "/":
		return Term{S: fmt.Sprintf("(div %s %s)", a.S, b.S), Sort: "Int", T: a.T}, nil
	case "%":
		return Term{S: fmt.Sprintf("(mod %s %s)", a.S, b.S), Sort: "Int", T: a.T}, nil
	case "<<":
		if c, ok := n.Y.(SInt); ok {
			var k uint
			fmt.Sscanf(c.Val, "%d", &k)
			p := "1"
			for i := uint(0); i < k; i++ {
				p = mulDec(p)
			}
			return Term{S: fmt.Sprintf("(* %s %s)", a.S, p), Sort: "Int", T: a.T}, nil
		}
		return Term{}, fmt.Errorf("<< needs a literal shift")
	case "in":
		mt, ok := b.T.Underlying().(*types.Map)
		if !ok {
			return Term{}, fmt.Errorf("'in' needs a map, got %v", b.T)
		}
		return Term{S: vc.mapHas(e.heap, mt, b.S, a.S), Sort: "Bool", T: boolT}, nil
	}
	return Term{}, fmt.Errorf("unsupported operator %s", n.Op)
}

func mulDec(s string) string {
	// multiply a decimal string by 2
	out := make([]byte, 0, len(s)+1)
	carry := 0
	for i := len(s) - 1; i >= 0; i-- {
		d := int(s[i]-'0')*2 + carry
		out = append(out, byte('0'+d%10))
		carry = d / 10
	}
	if carry > 0 {
		out = append(out, byte('0'+carry))
	}
	for i, j := 0, len(out)-1; i < j; i, j = i+1, j-1 {
		out[i], out[j] = out[j], out[i]
	}
	return string(out)
}

func (e *SpecEnv) index(x, i Term) (Term, error) {
	vc := e.vc
	if x.T == nil {
		return Term{}, fmt.Errorf("index on untyped term")
	}
	switch u := x.T.Underlying().(type) {
	case *types.Slice:
		if x.Sort == "Str" {
			vc.declare("(declare-fun strat (Str Int) Int)", "strat")
			return Term{S: fmt.Sprintf("(strat %s %s)", x.S, i.S), Sort: "Int", T: u.Elem()}, nil
		}
		ck := elemComp(u.Elem())
		es := vc.sortOf(u.Elem())
		rt := Term{S: fmt.Sprintf("(select (select %s (s_arr %s)) (idx (s_off %s) %s))", vc.getCompIn(e.heap, ck, "(Array Int (Array Int "+es+"))"), x.S, x.S, i.S), Sort: es, T: u.Elem()}
		if e.nbound == 0 {
			vc.global(vc.rangeFact(rt.S, u.Elem()))
		}
		return rt, nil
	case *types.Map:
		return Term{S: vc.mapGet(e.heap, u, x.S, i.S), Sort: vc.sortOf(u.Elem()), T: u.Elem()}, nil
	case *types.Basic:
		vc.declare("(declare-fun strat (Str Int) Int)", "strat")
		return Term{S: fmt.Sprintf("(strat %s %s)", x.S, i.S), Sort: "Int", T: types.Typ[types.Uint8]}, nil
	}
	return Term{}, fmt.Errorf("cannot index %v", x.T)
}

func (e *SpecEnv) call(n SCall) (Term, error) {
	vc := e.vc
	// builtins
	switch n.Fun {
	case "old":
		ne := e.child()
		ne.heap = e.old
		ne.resolve = e.resolve
		return ne.eval(n.Args[0])
	case "len", "cap":
		t, err := e.eval(n.Args[0])
		if err != nil {
			return Term{}, err
		}
		switch t.Sort {
		case "Slice":
			f := "s_len"
			if n.Fun == "cap" {
				f = "s_cap"
			}
			return Term{S: fmt.Sprintf("(%s %s)", f, t.S), Sort: "Int", T: types.Typ[types.Int]}, nil
		case "Str":
			return Term{S: fmt.Sprintf("(strlen %s)", t.S), Sort: "Int", T: types.Typ[types.Int]}, nil
		}
		return Term{}, fmt.Errorf("len of %s", t.Sort)
	case "Z":
		return e.eval(n.Args[0])
	case "fresh":
		t, err := e.eval(n.Args[0])
		if err != nil {
			return Term{}, err
		}
		r := t.S
		if t.Sort == "Slice" {
			r = fmt.Sprintf("(s_arr %s)", t.S)
		}
		return Term{S: fmt.Sprintf("(and (> %s %s) (<= %s %s))", r, vc.getCompIn(e.old, "top", "Int"), r, vc.getCompIn(e.heap, "top", "Int")), Sort: "Bool"}, nil
	case "allocated":
		t, err := e.eval(n.Args[0])
		if err != nil {
			return Term{}, err
		}
		if t.Sort == "Slice" {
			return Term{S: fmt.Sprintf("(<= (s_arr %s) %s)", t.S, vc.getCompIn(e.heap, "top", "Int")), Sort: "Bool"}, nil
		}
		return Term{S: fmt.Sprintf("(and (not (= %s 0)) (<= %s %s))", t.S, t.S, vc.getCompIn(e.heap, "top", "Int")), Sort: "Bool"}, nil
	case "deref": // deref(p): the value stored at pointer p (non-struct pointee)
		t, err := e.eval(n.Args[0])
		if err != nil {
			return Term{}, err
		}
		pt, ok := t.T.Underlying().(*types.Pointer)
		if !ok || isStruct(pt.Elem()) {
			return Term{}, fmt.Errorf("deref needs a pointer to a non-struct value")
		}
		a := vc.pointeeAddr(t.S, t.T)
		return Term{S: vc.loadAddrIn(e.heap, a), Sort: vc.sortOf(pt.Elem()), T: pt.Elem()}, nil
	case "arrOf": // arrOf(s): identity of the backing array of slice s (0 for nil)
		t, err := e.eval(n.Args[0])
		if err != nil {
			return Term{}, err
		}
		if t.Sort != "Slice" {
			return Term{}, fmt.Errorf("arrOf needs a slice")
		}
		return Term{S: fmt.Sprintf("(s_arr %s)", t.S), Sort: "Int", T: types.Typ[types.Int]}, nil
	case "framed": // framed(): the function's frame condition holds in the current state (for loop invariants)
		if vc.spec == nil {
			return Term{S: "true", Sort: "Bool"}, nil
		}
		vc.useRoot = true
		parts := []string{"true"}
		for _, fo := range vc.frameConds(e.heap, true) {
			parts = append(parts, fo.cond)
		}
		return Term{S: "(and " + strings.Join(parts, " ") + ")", Sort: "Bool"}, nil
	case "cast": // cast(x, "type"): x seen at another type with the same representation (named map <-> map, ...)
		x, err := e.eval(n.Args[0])
		if err != nil {
			return Term{}, err
		}
		ty, err := e.lookupType(n.Args[1].(SStr).Val)
		if err != nil {
			return Term{}, err
		}
		if vc.sortOf(ty) != x.Sort {
			return Term{}, fmt.Errorf("cast between different representations (%s vs %s)", x.Sort, vc.sortOf(ty))
		}
		return Term{S: x.S, Sort: x.Sort, T: ty}, nil
	case "offOf": // offOf(s): index of s[0] within its backing array
		t, err := e.eval(n.Args[0])
		if err != nil {
			return Term{}, err
		}
		if t.Sort != "Slice" {
			return Term{}, fmt.Errorf("offOf needs a slice")
		}
		return Term{S: fmt.Sprintf("(s_off %s)", t.S), Sort: "Int", T: types.Typ[types.Int]}, nil
	case "localArr": // localArr(s): s is nil or its backing array was allocated after function entry
		t, err := e.eval(n.Args[0])
		if err != nil {
			return Term{}, err
		}
		if t.Sort != "Slice" {
			return Term{}, fmt.Errorf("localArr needs a slice")
		}
		top0 := vc.getCompIn(vc.entryHeap, "top", "Int")
		return Term{S: fmt.Sprintf("(or (= (s_arr %s) 0) (> (s_arr %s) %s))", t.S, t.S, top0), Sort: "Bool"}, nil
	case "fnval": // fnval(name): the function value of a package-level function
		id, ok := n.Args[0].(SIdent)
		if !ok || e.pkg == nil {
			return Term{}, fmt.Errorf("fnval needs a function name")
		}
		for k, fn := range vc.eng.Funcs {
			if k == e.pkg.Path()+"."+id.Name {
				return vc.val(fn), nil
			}
		}
		return Term{}, fmt.Errorf("fnval: unknown function %s", id.Name)
	case "boxed": // boxed(x): x converted to an interface value (as MakeInterface does)
		t, err := e.eval(n.Args[0])
		if err != nil {
			return Term{}, err
		}
		if t.T == nil {
			return Term{}, fmt.Errorf("boxed() of untyped term")
		}
		if _, isIface := t.T.Underlying().(*types.Interface); isIface {
			return t, nil
		}
		tag := vc.typeTag(t.T)
		fn := fmt.Sprintf("box_%d", tag)
		vc.declare(fmt.Sprintf("(declare-fun %s (%s) Int) ; %s", fn, t.Sort, typeKey(t.T)), fn)
		un := vc.unboxFn(t.Sort)
		if e.nbound == 0 {
			// ground use: the instance suffices (keeps the vacuity (sat) queries quantifier-free where possible)
			if k := fn + "!" + t.S; !vc.dset[k] {
				vc.dset[k] = true
				vc.global(fmt.Sprintf("(and (> (%s %s) 0) (= (typeof (%s %s)) %d) (= (%s (%s %s)) %s))", fn, t.S, fn, t.S, tag, un, fn, t.S, t.S))
			}
		} else if !vc.dset[fn+"!ax"] {
			vc.dset[fn+"!ax"] = true
			vc.global(fmt.Sprintf("(forall ((bx %s)) (! (and (> (%s bx) 0) (= (typeof (%s bx)) %d) (= (%s (%s bx)) bx)) :pattern ((%s bx))))", t.Sort, fn, fn, tag, un, fn, fn))
		}
		return Term{S: fmt.Sprintf("(%s %s)", fn, t.S), Sort: "Int", T: types.NewInterfaceType(nil, nil)}, nil
	case "sameSlice": // same backing array and offset
		a, err := e.eval(n.Args[0])
		if err != nil {
			return Term{}, err
		}
		b, err := e.eval(n.Args[1])
		if err != nil {
			return Term{}, err
		}
		return Term{S: fmt.Sprintf("(and (= (s_arr %s) (s_arr %s)) (= (s_off %s) (s_off %s)))", a.S, b.S, a.S, b.S), Sort: "Bool"}, nil
	case "isType": // isType(x, "typekey") dynamic type test on interface values
		t, err := e.eval(n.Args[0])
		if err != nil {
			return Term{}, err
		}
		ty, err := e.lookupType(n.Args[1].(SStr).Val)
		if err != nil {
			return Term{}, err
		}
		return Term{S: fmt.Sprintf("(and (not (= %s 0)) (= (typeof %s) %d))", t.S, t.S, vc.typeTag(ty)), Sort: "Bool"}, nil
	case "unbox": // unbox(x, "type")
		t, err := e.eval(n.Args[0])
		if err != nil {
			return Term{}, err
		}
		ty, err := e.lookupType(n.Args[1].(SStr).Val)
		if err != nil {
			return Term{}, err
		}
		s := vc.sortOf(ty)
		return Term{S: fmt.Sprintf("(%s %s)", vc.unboxFn(s), t.S), Sort: s, T: ty}, nil
	case "src", "dst": // auto-ghosts of an append-built slice: src(v, p), dst(v, i)
		id, ok := n.Args[0].(SIdent)
		if !ok {
			return Term{}, fmt.Errorf("%s needs a slice variable name", n.Fun)
		}
		i, err := e.eval(n.Args[1])
		if err != nil {
			return Term{}, err
		}
		key := "ghost|" + n.Fun + "|" + id.Name
		return Term{S: fmt.Sprintf("(select %s %s)", vc.getCompIn(e.heap, key, "(Array Int Int)"), i.S), Sort: "Int", T: types.Typ[types.Int]}, nil
	case "stamp": // stamp(m, key): iteration index of the last store to m[key] in the enclosing loop
		id, ok := n.Args[0].(SIdent)
		if !ok {
			return Term{}, fmt.Errorf("stamp needs a map variable name")
		}
		k, err := e.eval(n.Args[1])
		if err != nil {
			return Term{}, err
		}
		key := "ghost|stamp|" + id.Name
		return Term{S: fmt.Sprintf("(select %s %s)", vc.getCompIn(e.heap, key, "(Array "+k.Sort+" Int)"), k.S), Sort: "Int", T: types.Typ[types.Int]}, nil
	case "visited": // visited(m, key): key already produced by the enclosing map range loop
		id, ok := n.Args[0].(SIdent)
		if !ok {
			return Term{}, fmt.Errorf("visited needs a map variable name")
		}
		k, err := e.eval(n.Args[1])
		if err != nil {
			return Term{}, err
		}
		key := "ghost|visited|" + id.Name
		return Term{S: fmt.Sprintf("(select %s %s)", vc.getCompIn(e.heap, key, "(Array "+k.Sort+" Bool)"), k.S), Sort: "Bool"}, nil
	}
	// conversions
	switch n.Fun {
	case "uint64", "int64", "int", "uint", "uint32", "int32", "uint8", "uint16", "int16", "int8":
		t, err := e.eval(n.Args[0])
		if err != nil {
			return Term{}, err
		}
		ty := types.Universe.Lookup(n.Fun).Type()
		return Term{S: wrapTerm(t.S, ty), Sort: "Int", T: ty}, nil
	case "string":
		t, err := e.eval(n.Args[0])
		if err != nil {
			return Term{}, err
		}
		if t.Sort != "Str" {
			return Term{}, fmt.Errorf("string() of %s", t.Sort)
		}
		return Term{S: t.S, Sort: "Str", T: types.Typ[types.String]}, nil
	}
	fromPkg := ""
	if e.pkg != nil {
		fromPkg = e.pkg.Path()
	}
	sf, lerr := vc.eng.DB.LookupSpec(n.Fun, fromPkg)
	if lerr != nil {
		return Term{}, lerr
	}
	if len(n.Args) != len(sf.Params) {
		return Term{}, fmt.Errorf("spec %s: %d args, want %d", n.Fun, len(n.Args), len(sf.Params))
	}
	var args []Term
	for _, a := range n.Args {
		t, err := e.eval(a)
		if err != nil {
			return Term{}, err
		}
		args = append(args, t)
	}
	scope := &SpecEnv{vc: vc, pkg: e.pkg, vars: map[string]Term{}, heap: e.heap, old: e.old, depth: e.depth + 1, nbound: e.nbound}
	if sf.Pkg != "" {
		if p := vc.eng.TPkgs[sf.Pkg]; p != nil {
			scope.pkg = p
		}
	}
	if e.depth > 20 {
		return Term{}, fmt.Errorf("spec function recursion too deep at %s", n.Fun)
	}
	var sorts []string
	for i, p := range sf.Params {
		ty, err := scope.lookupType(p.Type)
		if err != nil {
			return Term{}, fmt.Errorf("spec %s param %s: %v", n.Fun, p.Name, err)
		}
		a := args[i]
		ps := vc.sortOf(ty)
		if a.Sort == "Nil" {
			a, _ = e.unifyNil(a, Term{Sort: ps, T: ty})
		}
		if a.Addr && ps != "Int" {
			a = e.materialize(a)
		}
		if a.Sort != ps {
			return Term{}, fmt.Errorf("spec %s param %s: sort %s, want %s", n.Fun, p.Name, a.Sort, ps)
		}
		a.T = ty
		if _, isIface := ty.Underlying().(*types.Interface); isIface && args[i].T != nil {
			a.T = args[i].T // keep the precise type for 'any' parameters
		}
		scope.vars[p.Name] = a
		sorts = append(sorts, ps)
	}
	rty, err := scope.lookupType(sf.Ret)
	if err != nil {
		return Term{}, fmt.Errorf("spec %s result: %v", n.Fun, err)
	}
	rs := vc.sortOf(rty)
	if sf.Body != nil && !(sf.Opaque && !vc.revealAll && !vc.revealed[sf.Name]) {
		t, err := scope.eval(sf.Body)
		if err != nil {
			return Term{}, fmt.Errorf("in spec %s: %v", n.Fun, err)
		}
		if t.Sort != rs {
			return Term{}, fmt.Errorf("spec %s body has sort %s, want %s", n.Fun, t.Sort, rs)
		}
		t.T = rty
		return t, nil
	}
	fname := "spec_" + n.Fun
	if len(vc.eng.DB.SpecByName[n.Fun]) > 1 {
		fname = "spec_" + mangle(shortKey(sf.Pkg)) + "_" + n.Fun
	}
	vc.declare(fmt.Sprintf("(declare-fun %s (%s) %s)", fname, strings.Join(sorts, " "), rs), fname)
	var as []string
	for i := range args {
		as = append(as, scope.vars[sf.Params[i].Name].S)
	}
	if len(as) == 0 {
		return Term{S: fname, Sort: rs, T: rty}, nil
	}
	return Term{S: fmt.Sprintf("(%s %s)", fname, strings.Join(as, " ")), Sort: rs, T: rty}, nil
}

// resolveLocal finds the SSA value bound to a source-level name at the given block (through DebugRefs and phis).
func (vc *VC) resolveLocal(name string, at *ssa.BasicBlock, heap Heap, phiOverride map[*ssa.Phi]Term) (Term, bool) {
	return vc.resolveLocalBefore(name, at, -1, heap, phiOverride)
}

// resolveLocalBefore: as resolveLocal, but inside block `at` only instructions before index `limit` count (limit < 0:
// the whole block, used at loop heads where the header's own references are the loop-carried values).
func (vc *VC) resolveLocalBefore(name string, at *ssa.BasicBlock, limit int, heap Heap, phiOverride map[*ssa.Phi]Term) (Term, bool) {
	// phis at loop headers / joins named by comment
	var best ssa.Value
	bestPos := -1
	bestAddr := false
	others := map[ssa.Value]bool{}
	consider := func(v ssa.Value, b *ssa.BasicBlock, idx int, isAddr bool) {
		if b != at && !b.Dominates(at) {
			return
		}
		if b == at && limit >= 0 && idx >= limit {
			return
		}
		p, ok := vc.rpoPos[b.Index]
		if !ok {
			return
		}
		score := p*100000 + idx
		if score > bestPos {
			best, bestPos, bestAddr = v, score, isAddr
		}
	}
	for _, b := range vc.fn.Blocks {
		for i, ins := range b.Instrs {
			switch x := ins.(type) {
			case *ssa.Phi:
				if x.Comment == name {
					consider(x, b, i, false)
				}
			case *ssa.Alloc:
				if x.Comment == name {
					consider(x, b, i, true)
				}
			case *ssa.DebugRef:
				if id, ok := x.Expr.(*ast.Ident); ok && id.Name == name {
					if c, isC := x.X.(*ssa.Const); isC && c.Value == nil && x.Object() != nil && id.Pos() == x.Object().Pos() {
						// go/ssa records the zero value at the defining occurrence of `v := <composite literal>`;
						// the variable's value is the literal built right after it
						continue
					}
					consider(x.X, b, i, x.IsAddr)
					if !x.IsAddr {
						others[x.X] = true
					}
				}
			}
		}
	}
	if best == nil && len(others) == 1 {
		// never reassigned: every reference sees the same SSA value; usable wherever its definition dominates
		for v := range others {
			if ins, ok := v.(ssa.Instruction); ok && ins.Block() != nil && (ins.Block() == at || ins.Block().Dominates(at)) {
				best = v
			}
		}
	}
	if best == nil {
		return Term{}, false
	}
	if ph, ok := best.(*ssa.Phi); ok && phiOverride != nil {
		if t, ok := phiOverride[ph]; ok {
			return t, true
		}
	}
	t, ok := vc.vals[best]
	if !ok {
		if _, isConst := best.(*ssa.Const); isConst {
			t = vc.val(best)
		} else {
			return Term{}, false
		}
	}
	if bestAddr {
		a := vc.addrs[best]
		if a == nil {
			a = vc.pointeeAddr(t.S, best.Type())
		}
		elem := best.Type().Underlying().(*types.Pointer).Elem()
		if isStruct(elem) {
			sp := ""
			if al, ok := best.(*ssa.Alloc); ok {
				sp = vc.localAllocs[al]
			}
			return Term{S: t.S, Sort: "Int", T: elem, Addr: true, Space: sp}, true
		}
		return Term{S: vc.loadAddrIn(heap, a), Sort: vc.sortOf(elem), T: elem}, true
	}
	return t, true
}

// importNames maps the local names of the imports of a repo package (alias or package name) to import paths.
func (e *Engine) importNames(pkgPath string) map[string]string {
	if e.impNames == nil {
		e.impNames = map[string]map[string]string{}
		packages.Visit(e.Pkgs, nil, func(p *packages.Package) {
			if !strings.HasPrefix(p.PkgPath, repoModule) {
				return
			}
			m := map[string]string{}
			for _, f := range p.Syntax {
				for _, is := range f.Imports {
					path := strings.Trim(is.Path.Value, "\"")
					name := ""
					if is.Name != nil {
						name = is.Name.Name
					} else if ip := p.Imports[path]; ip != nil {
						name = ip.Name
					}
					if name != "" && name != "_" && name != "." {
						if _, dup := m[name]; !dup {
							m[name] = path
						}
					}
				}
			}
			e.impNames[p.PkgPath] = m
		})
	}
	return e.impNames[pkgPath]
}
