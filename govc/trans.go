package main

import (
	"fmt"
	"go/ast"
	"go/token"
	"go/types"
	"sort"
	"strings"

	"golang.org/x/tools/go/packages"
	"golang.org/x/tools/go/ssa"
)

func NewVC(eng *Engine, fn *ssa.Function, spec *FuncSpec) *VC {
	vc := &VC{eng: eng, fn: fn, key: funcKey(fn), spec: spec}
	if fn.Pkg != nil {
		vc.pkg = fn.Pkg.Pkg
	} else if fn.Parent() != nil && fn.Parent().Pkg != nil {
		vc.pkg = fn.Parent().Pkg.Pkg
	}
	return vc
}

func (vc *VC) reset(dry bool) {
	vc.dry = dry
	c0 := 0
	vc.ctr = &c0
	vc.decls, vc.dset, vc.facts, vc.obls = nil, map[string]bool{}, nil, nil
	vc.comps = map[string]*Comp{}
	vc.vals, vc.tuples, vc.addrs = map[ssa.Value]Term{}, map[ssa.Value][]Term{}, map[ssa.Value]*Addr{}
	vc.strlits, vc.typetags = map[string]string{}, map[string]int{}
	vc.heapOut, vc.reach, vc.edgeTerm = map[int]Heap{}, map[int]string{}, map[[2]int]string{}
	vc.written, vc.wroteAll = map[int]map[string]bool{}, map[int]bool{}
	vc.nonFresh, vc.freshRoots = map[int]map[string]bool{}, map[int]map[string][]int{}
	vc.defers, vc.inputs, vc.unsupp = nil, nil, nil
	vc.useRoot = false
	vc.cells = nil
	vc.trusted = map[string]bool{}
	vc.revealed = map[string]bool{}
	if vc.spec != nil {
		for _, r := range vc.spec.Reveals {
			vc.revealed[r] = true
		}
	}
}

// Generate builds the VC. Two passes: a dry pass to find what each loop modifies, then the real one.
func (vc *VC) Generate() (err error) {
	defer func() {
		if r := recover(); r != nil {
			if ve, ok := r.(vcError); ok {
				err = ve
				return
			}
			panic(r)
		}
	}()
	if len(vc.fn.Blocks) == 0 {
		return fmt.Errorf("no body")
	}
	vc.analyzeCFG()
	vc.findLocalAllocs()
	if len(vc.loops) > 0 {
		vc.reset(true)
		vc.run()
		for _, li := range vc.loops {
			li.mods = map[string]bool{}
			li.freshOnly = map[string]bool{}
			for b := range li.blocks {
				p, ok := vc.rpoPos[b]
				if !ok {
					continue
				}
				for k := range vc.written[p] {
					li.mods[k] = true
				}
				if vc.wroteAll[p] {
					li.modAll = true
				}
			}
			li.localOnly = map[string]bool{}
			for k := range li.mods {
				ok, local := true, true
				for b := range li.blocks {
					p, has := vc.rpoPos[b]
					if !has {
						continue
					}
					if vc.nonFresh[p][k] {
						ok, local = false, false
					}
					for _, ab := range vc.freshRoots[p][k] {
						if !li.blocks[ab] {
							ok = false // allocated by this function, but before the loop
						}
					}
				}
				li.freshOnly[k] = ok
				li.localOnly[k] = local
			}
		}
	}
	vc.reset(false)
	vc.run()
	vc.addRelevantAxioms()
	if len(vc.strlits) > 0 {
		names := []string{"str_empty"}
		for _, n := range vc.strlits {
			names = append(names, n)
		}
		sort.Strings(names)
		vc.global("(distinct " + strings.Join(names, " ") + ")")
	}
	{
		var fns []string
		for n := range vc.dset {
			if strings.HasPrefix(n, "fn_") {
				fns = append(fns, n)
			}
		}
		if len(fns) > 1 {
			sort.Strings(fns)
			vc.global("(distinct " + strings.Join(fns, " ") + ")")
		}
	}
	vc.replay = nil
	vc.buildReplayTerms()
	return nil
}

type vcError struct{ msg string }

func (e vcError) Error() string { return e.msg }

func (vc *VC) fail(format string, a ...interface{}) {
	panic(vcError{fmt.Sprintf(format, a...)})
}

func (vc *VC) run() {
	fn := vc.fn
	vc.heap = Heap{m: map[string]string{}, epoch: 0}
	vc.curBlk, vc.curIdx = 0, -1
	vc.reach[0] = "true"
	vc.global(fmt.Sprintf("(> %s 0)", vc.getComp("top", "Int")))
	vc.entryHeap = vc.heap.clone()
	// parameters and free variables
	for _, p := range fn.Params {
		t := vc.havocOf(p.Type(), "p_"+mangle(p.Name()))
		vc.vals[p] = t
		vc.inputs = append(vc.inputs, t.S)
	}
	for _, fv := range fn.FreeVars {
		t := vc.havocOf(fv.Type(), "fv_"+mangle(fv.Name()))
		vc.vals[fv] = t
		vc.global(fmt.Sprintf("(> %s 0)", t.S))
	}
	// requires
	if vc.spec != nil {
		env := vc.entryEnv()
		for i, c := range vc.spec.Requires {
			t, err := env.evalBool(c.Expr)
			if err != nil {
				vc.fail("%s requires#%d: %v", shortKey(vc.key), i+1, err)
			}
			vc.assume(t)
		}
		for _, gs := range vc.spec.Sets {
			if err := vc.setGhost(env, gs); err != nil {
				vc.fail("%s sets %s: %v", shortKey(vc.key), gs.Name, err)
			}
		}
	}
	(*vc.ctr)++
	vc.entrySeq = *vc.ctr
	vc.runBlocks()
}

func (vc *VC) runBlocks() {
	fn := vc.fn
	for pos, bi := range vc.rpo {
		b := fn.Blocks[bi]
		vc.curBlk, vc.curIdx = pos, -1
		if pos > 0 {
			vc.enterBlock(b)
		}
		for i, ins := range b.Instrs {
			vc.curIdx = i
			vc.instr(ins)
		}
		vc.curIdx = len(b.Instrs)
		vc.heapOut[pos] = vc.heap.clone()
		// back edges leaving this block: invariant preservation
		for _, s := range b.Succs {
			if vc.isBack[[2]int{bi, s.Index}] {
				vc.checkInvariants(vc.loops[s.Index], b, "preserved")
			}
		}
	}
}

// edge returns the Boolean term "control went from block p to block b".
func (vc *VC) edge(p, b *ssa.BasicBlock) string {
	k := [2]int{p.Index, b.Index}
	if t, ok := vc.edgeTerm[k]; ok {
		return t
	}
	pp := vc.rpoPos[p.Index]
	r := vc.reach[pp]
	cond := "true"
	if ifi, ok := p.Instrs[len(p.Instrs)-1].(*ssa.If); ok {
		c := vc.val(ifi.Cond).S
		if p.Succs[0] == b && p.Succs[1] == b {
			cond = "true"
		} else if p.Succs[0] == b {
			cond = c
		} else {
			cond = "(not " + c + ")"
		}
	}
	name := fmt.Sprintf("%sE_%d_%d", vc.pfx, p.Index, b.Index)
	vc.define(name, "Bool", fmt.Sprintf("(and %s %s)", r, cond))
	vc.edgeTerm[k] = name
	return name
}

func (vc *VC) enterBlock(b *ssa.BasicBlock) {
	var preds []*ssa.BasicBlock
	for _, p := range b.Preds {
		if vc.isBack[[2]int{p.Index, b.Index}] {
			continue
		}
		if _, ok := vc.rpoPos[p.Index]; !ok {
			continue
		}
		preds = append(preds, p)
	}
	if len(preds) == 0 {
		vc.reach[vc.curBlk] = "false"
		vc.heap = Heap{m: map[string]string{}}
		return
	}
	var es []string
	for _, p := range preds {
		es = append(es, vc.edge(p, b))
	}
	rname := fmt.Sprintf("%sR_%d", vc.pfx, b.Index)
	if len(es) == 1 {
		vc.define(rname, "Bool", es[0])
	} else {
		vc.define(rname, "Bool", "(or "+strings.Join(es, " ")+")")
	}
	vc.reach[vc.curBlk] = rname
	// merge heaps
	h0 := vc.heapOut[vc.rpoPos[preds[0].Index]]
	merged := h0.clone()
	if len(preds) > 1 {
		sameEpoch := true
		for _, p := range preds[1:] {
			if vc.heapOut[vc.rpoPos[p.Index]].epoch != h0.epoch {
				sameEpoch = false
			}
		}
		keys := map[string]bool{}
		for _, p := range preds {
			for k := range vc.heapOut[vc.rpoPos[p.Index]].m {
				keys[k] = true
			}
		}
		if !sameEpoch {
			// make every known component explicit in each pred heap view
			for k := range vc.comps {
				keys[k] = true
			}
			(*vc.ctr)++
			merged = Heap{m: map[string]string{}, epoch: (*vc.ctr)}
		}
		var ks []string
		for k := range keys {
			ks = append(ks, k)
		}
		sort.Strings(ks)
		for _, k := range ks {
			c := vc.comps[k]
			if c.sort == "" {
				continue
			}
			var vs []string
			same := true
			for _, p := range preds {
				v := vc.getCompIn(vc.heapOut[vc.rpoPos[p.Index]], k, c.sort)
				vs = append(vs, v)
				if v != vs[0] {
					same = false
				}
			}
			if same {
				merged.m[k] = vs[0]
				continue
			}
			term := vs[len(vs)-1]
			for i := len(vs) - 2; i >= 0; i-- {
				term = fmt.Sprintf("(ite %s %s %s)", es[i], vs[i], term)
			}
			name := vc.fresh(fmt.Sprintf("Hm_%d", c.id))
			vc.define(name, c.sort, term)
			merged.m[k] = name
		}
	}
	vc.heap = merged
	// loop header: check invariants on entry edges, then havoc
	if li, ok := vc.loops[b.Index]; ok {
		for _, p := range preds {
			vc.checkInvariantsOnEdge(li, p, b, "init")
		}
		if li.modAll {
			vc.havocAll()
		} else {
			var ks []string
			for k := range li.mods {
				ks = append(ks, k)
			}
			sort.Strings(ks)
			for _, k := range ks {
				c := vc.comps[k]
				if c == nil || c.sort == "" {
					// component first seen inside the loop during this pass: declare lazily with dry-pass sort
					continue
				}
				if k == "top" {
					old := vc.getComp("top", "Int")
					n := vc.havocComp(k, c.sort)
					vc.assume(fmt.Sprintf("(>= %s %s)", n, old))
					continue
				}
				pre := vc.getComp(k, c.sort)
				topPre := vc.getComp("top", "Int")
				if tm, ok := merged.m["top"]; ok {
					topPre = tm
				} else {
					topPre = vc.getCompIn(merged, "top", "Int")
				}
				nw := vc.havocComp(k, c.sort)
				if !li.freshOnly[k] && li.localOnly[k] {
					// written only inside objects allocated by this function: references that existed at function
					// entry keep their loop-entry value
					topPre = vc.getCompIn(vc.entryHeap, "top", "Int")
				}
				if (li.freshOnly[k] || li.localOnly[k]) && strings.HasPrefix(c.sort, "(Array Int ") {
					vc.useRoot = true
					vc.assume(fmt.Sprintf("(forall ((r Int)) (! (=> (and (< 0 (root r)) (<= (root r) %s)) (= (select %s r) (select %s r))) :pattern ((select %s r))))", topPre, nw, pre, nw))
				}
			}
		}
		vc.autoLocalSlices(li, b, preds)
		for _, ins := range b.Instrs {
			if ph, ok := ins.(*ssa.Phi); ok {
				vc.havocVal(ph)
			}
		}
		vc.assumeInvariants(li)
	}
}

// ---------- instructions ----------

func (vc *VC) srcText(pos token.Pos, kinds ...string) string {
	if !pos.IsValid() {
		return "?"
	}
	var file *ast.File
	tf := vc.eng.Prog.Fset.File(pos)
	if tf == nil {
		return "?"
	}
	for _, sp := range vc.eng.allSyntax() {
		if vc.eng.Prog.Fset.File(sp.Pos()) == tf {
			file = sp
			break
		}
	}
	if file == nil {
		return "?"
	}
	var best ast.Node
	ast.Inspect(file, func(n ast.Node) bool {
		if n == nil {
			return false
		}
		if pos < n.Pos() || pos >= n.End() {
			return false
		}
		switch n.(type) {
		case *ast.SelectorExpr, *ast.IndexExpr, *ast.SliceExpr, *ast.StarExpr, *ast.TypeAssertExpr, *ast.CallExpr, *ast.BinaryExpr:
			best = n
		}
		return true
	})
	if best == nil {
		return "?"
	}
	s := types.ExprString(best.(ast.Expr))
	return trunc(s, 70)
}

func (e *Engine) allSyntax() []*ast.File {
	if e.syntax != nil {
		return e.syntax
	}
	seen := map[string]bool{}
	packages.Visit(e.Pkgs, nil, func(p *packages.Package) {
		if strings.HasPrefix(p.PkgPath, repoModule) && !seen[p.PkgPath] {
			seen[p.PkgPath] = true
			e.syntax = append(e.syntax, p.Syntax...)
		}
	})
	return e.syntax
}

func (vc *VC) safe(kind, cond string, pos token.Pos) {
	vc.oblige(fmt.Sprintf("safe/%s[%s]", kind, vc.srcText(pos)), "safe", cond, kind, pos)
	// after the check the condition holds on the continuing path
	vc.assume(cond)
}

func (vc *VC) instr(ins ssa.Instruction) {
	switch x := ins.(type) {
	case *ssa.DebugRef:
	case *ssa.Phi:
		vc.phi(x)
	case *ssa.Alloc:
		r := vc.newRef()
		elem := x.Type().Underlying().(*types.Pointer).Elem()
		vc.vals[x] = Term{S: r, Sort: "Int", T: x.Type()}
		vc.writeRoot = x
		vc.zeroInit(r, elem, vc.localAllocs[x])
		vc.writeRoot = nil
	case *ssa.FieldAddr:
		p := vc.val(x.X)
		st := x.X.Type().Underlying().(*types.Pointer).Elem()
		f := st.Underlying().(*types.Struct).Field(x.Field)
		if !vc.isKnownNonNil(x.X) {
			vc.safe("nil-deref", fmt.Sprintf("(not (= %s 0))", p.S), x.Pos())
		}
		if pa := vc.addrs[x.X]; pa != nil && pa.kind == "elem" {
			et := pa.typ
			if len(pa.path) > 0 {
				et = pa.elemTyp
			}
			na := &Addr{kind: "elem", comp: pa.comp, base: pa.base, idx: pa.idx, typ: f.Type(), elemTyp: et, path: append(append([]int{}, pa.path...), x.Field)}
			vc.addrs[x] = na
			vc.vals[x] = Term{S: vc.elemSubRef(pa.comp, pa.base, pa.idx), Sort: "Int", T: x.Type()}
			return
		}
		sp := vc.spaceOf(x.X)
		a := &Addr{space: sp, kind: "field", comp: sp + fieldComp(st, f), base: p.S, typ: f.Type()}
		vc.comp(a.comp, vc.compSortOrEmpty(f))
		vc.addrs[x] = a
		if isStruct(f.Type()) {
			vc.vals[x] = Term{S: vc.structAddr(a), Sort: "Int", T: x.Type()}
		} else {
			fn := "faddr_" + fmt.Sprint(vc.comps[a.comp].id)
			vc.declare(fmt.Sprintf("(declare-fun %s (Int) Int)", fn), fn)
			vc.vals[x] = Term{S: fmt.Sprintf("(%s %s)", fn, p.S), Sort: "Int", T: x.Type()}
			vc.global(fmt.Sprintf("(< (%s %s) 0)", fn, p.S))
		}
	case *ssa.IndexAddr:
		vc.indexAddr(x)
	case *ssa.UnOp:
		vc.unop(x)
	case *ssa.BinOp:
		vc.binop(x)
	case *ssa.Store:
		val := vc.val(x.Val)
		a := vc.addrs[x.Addr]
		if a == nil {
			p := vc.val(x.Addr)
			if !vc.isKnownNonNil(x.Addr) {
				vc.safe("nil-deref", fmt.Sprintf("(not (= %s 0))", p.S), x.Pos())
			}
			a = vc.pointeeAddr(p.S, x.Addr.Type())
			a.space = vc.spaceOf(x.Addr)
		}
		vc.writeRoot = vc.allocRootOf(x.Addr)
		vc.storeAddr(a, val.S)
		vc.writeRoot = nil
	case *ssa.Field:
		sv := vc.val(x.X)
		st := x.X.Type().Underlying().(*types.Struct)
		f := st.Field(x.Field)
		ft := vc.setVal(x, fmt.Sprintf("(%s_%s %s)", vc.structSort(x.X.Type()), mangle(f.Name()), sv.S))
		vc.assume(vc.rangeFact(ft.S, x.Type())) // type invariant of the extracted value (slice header / string / integer range)
	case *ssa.Index:
		xv := vc.val(x.X)
		iv := vc.val(x.Index)
		if vc.sortOf(x.X.Type()) == "Str" {
			vc.safe("index", fmt.Sprintf("(and (<= 0 %s) (< %s (strlen %s)))", iv.S, iv.S, xv.S), x.Pos())
			vc.declare("(declare-fun strat (Str Int) Int)", "strat")
			t := vc.setVal(x, fmt.Sprintf("(strat %s %s)", xv.S, iv.S))
			vc.assume(vc.rangeFact(t.S, x.Type()))
		} else {
			at := x.X.Type().Underlying().(*types.Array)
			vc.safe("index", fmt.Sprintf("(and (<= 0 %s) (< %s %d))", iv.S, iv.S, at.Len()), x.Pos())
			vc.setVal(x, fmt.Sprintf("(select %s %s)", xv.S, iv.S))
		}
	case *ssa.Slice:
		vc.sliceOp(x)
	case *ssa.MakeSlice:
		r := vc.newRef()
		elem := x.Type().Underlying().(*types.Slice).Elem()
		l, c := vc.val(x.Len), vc.val(x.Cap)
		vc.safe("makeslice", fmt.Sprintf("(and (<= 0 %s) (<= %s %s))", l.S, l.S, c.S), x.Pos())
		if isByteSlice(x.Type()) {
			t := vc.havocVal(x)
			vc.assume(fmt.Sprintf("(= (strlen %s) %s)", t.S, l.S))
			return
		}
		{
			es := vc.sortOf(elem)
			s := "(Array Int (Array Int " + es + "))"
			k := elemComp(elem)
			vc.writeRoot = x
			vc.setComp(k, s, fmt.Sprintf("(store %s %s ((as const (Array Int %s)) %s))", vc.getComp(k, s), r, es, vc.zero(elem)))
			vc.writeRoot = nil
		}
		vc.setVal(x, fmt.Sprintf("(mk_slice %s 0 %s %s)", r, l.S, c.S))
	case *ssa.MakeMap:
		r := vc.newRef()
		mt := x.Type().Underlying().(*types.Map)
		dk, ds, _, _ := vc.mapComps(mt)
		vc.writeRoot = x
		vc.setComp(dk, ds, fmt.Sprintf("(store %s %s ((as const (Array %s Bool)) false))", vc.getComp(dk, ds), r, vc.sortOf(mt.Key())))
		vc.writeRoot = nil
		vc.vals[x] = Term{S: r, Sort: "Int", T: x.Type()}
	case *ssa.MakeInterface:
		vc.makeInterface(x)
	case *ssa.MakeClosure:
		r := vc.newRef()
		vc.vals[x] = Term{S: r, Sort: "Int", T: x.Type()}
	case *ssa.ChangeType:
		v := vc.val(x.X)
		vc.vals[x] = Term{S: v.S, Sort: v.Sort, T: x.Type()}
	case *ssa.ChangeInterface:
		v := vc.val(x.X)
		vc.vals[x] = Term{S: v.S, Sort: v.Sort, T: x.Type()}
	case *ssa.Convert:
		vc.convert(x)
	case *ssa.TypeAssert:
		vc.typeAssert(x)
	case *ssa.Extract:
		tup := vc.tuples[x.Tuple]
		if tup == nil || x.Index >= len(tup) {
			vc.havocVal(x)
			return
		}
		t := tup[x.Index]
		vc.vals[x] = Term{S: t.S, Sort: t.Sort, T: x.Type()}
	case *ssa.Lookup:
		vc.lookup(x)
	case *ssa.MapUpdate:
		m := vc.val(x.Map)
		mt := x.Map.Type().Underlying().(*types.Map)
		vc.safe("nil-map-store", fmt.Sprintf("(not (= %s 0))", m.S), x.Pos())
		dk, ds, vk, vs := vc.mapComps(mt)
		k, v := vc.val(x.Key), vc.val(x.Value)
		vc.writeRoot = vc.allocRootOf(x.Map)
		d := vc.getComp(dk, ds)
		vc.setComp(dk, ds, fmt.Sprintf("(store %s %s (store (select %s %s) %s true))", d, m.S, d, m.S, k.S))
		vv := vc.getComp(vk, vs)
		vc.setComp(vk, vs, fmt.Sprintf("(store %s %s (store (select %s %s) %s %s))", vv, m.S, vv, m.S, k.S, v.S))
		vc.writeRoot = nil
		vc.mapStamp(x, mt, m.S, k.S)
	case *ssa.Range:
		vc.vals[x] = Term{S: vc.val(x.X).S, Sort: vc.sortOf(x.X.Type()), T: x.X.Type()}
		if mt, ok := x.X.Type().Underlying().(*types.Map); ok {
			if name := vc.sourceNameOf(x.X); name != "" {
				ks := vc.sortOf(mt.Key())
				vc.setComp("ghost|visited|"+name, "(Array "+ks+" Bool)", "((as const (Array "+ks+" Bool)) false)")
			}
		}
	case *ssa.Next:
		vc.next(x)
	case *ssa.Call:
		vc.call(x, x.Common(), x)
	case *ssa.Defer:
		if vc.curBlk != 0 {
			vc.unsupp = append(vc.unsupp, "defer outside entry block")
		}
		vc.defers = append(vc.defers, x)
	case *ssa.RunDefers:
		for i := len(vc.defers) - 1; i >= 0; i-- {
			d := vc.defers[i]
			vc.call(d, d.Common(), nil)
		}
	case *ssa.Go:
		vc.unsupp = append(vc.unsupp, "go statement")
	case *ssa.Select:
		vc.unsupp = append(vc.unsupp, "select")
		vc.tuples[x] = nil
		vc.havocTuple(x)
	case *ssa.Send:
		vc.unsupp = append(vc.unsupp, "chan send")
	case *ssa.MakeChan:
		vc.vals[x] = Term{S: vc.newRef(), Sort: "Int", T: x.Type()}
	case *ssa.If, *ssa.Jump:
	case *ssa.Return:
		vc.ret(x)
	case *ssa.Panic:
		vc.oblige(fmt.Sprintf("safe/panic[%s]", vc.srcText(x.Pos())), "safe", "false", "explicit panic", x.Pos())
	default:
		vc.unsupp = append(vc.unsupp, fmt.Sprintf("%T", ins))
		if v, ok := ins.(ssa.Value); ok {
			vc.havocVal(v)
		}
	}
}

func (vc *VC) compSortOrEmpty(f *types.Var) string {
	if isStruct(f.Type()) {
		return ""
	}
	return vc.fieldSort(f)
}

func (vc *VC) havocTuple(v ssa.Value) {
	tt, ok := v.Type().(*types.Tuple)
	if !ok {
		return
	}
	var ts []Term
	for i := 0; i < tt.Len(); i++ {
		ts = append(ts, vc.havocOf(tt.At(i).Type(), "tup"))
	}
	vc.tuples[v] = ts
}

// isKnownNonNil: addresses produced by Alloc / FieldAddr-of-struct-field / Global / FreeVar are never nil.
func (vc *VC) isKnownNonNil(v ssa.Value) bool {
	switch x := v.(type) {
	case *ssa.Alloc, *ssa.Global, *ssa.FreeVar:
		return true
	case *ssa.FieldAddr, *ssa.IndexAddr:
		_ = x
		return true
	case *ssa.UnOp:
		// package-level logger variables are initialised at package init and never reassigned
		if g, ok := x.X.(*ssa.Global); ok {
			if n, ok := derefNamed(g.Type().Underlying().(*types.Pointer).Elem()); ok && n.Obj().Pkg() != nil && isNoopCallee(n.Obj().Pkg().Path()+"/") {
				vc.trusted["package-level logger variables are non-nil"] = true
				return true
			}
		}
	}
	return false
}

func (vc *VC) phi(x *ssa.Phi) {
	b := x.Block()
	if _, isLoop := vc.loops[b.Index]; isLoop {
		if _, done := vc.vals[x]; !done {
			vc.havocVal(x)
		}
		return
	}
	var es, vs []string
	for i, p := range b.Preds {
		if _, ok := vc.rpoPos[p.Index]; !ok {
			continue
		}
		es = append(es, vc.edge(p, b))
		vs = append(vs, vc.val(x.Edges[i]).S)
	}
	if len(vs) == 0 {
		vc.havocVal(x)
		return
	}
	term := vs[len(vs)-1]
	for i := len(vs) - 2; i >= 0; i-- {
		term = fmt.Sprintf("(ite %s %s %s)", es[i], vs[i], term)
	}
	vc.setVal(x, term)
}


func (vc *VC) indexAddr(x *ssa.IndexAddr) {
	xv := vc.val(x.X)
	iv := vc.val(x.Index)
	switch xt := x.X.Type().Underlying().(type) {
	case *types.Slice:
		if isByteSlice(x.X.Type()) {
			vc.safe("index", fmt.Sprintf("(and (<= 0 %s) (< %s (strlen %s)))", iv.S, iv.S, xv.S), x.Pos())
			vc.addrs[x] = &Addr{kind: "bytes", base: xv.S, idx: iv.S, typ: xt.Elem()}
			vc.vals[x] = Term{S: "0", Sort: "Int", T: x.Type()}
			return
		}
		vc.safe("index", fmt.Sprintf("(and (<= 0 %s) (< %s (s_len %s)))", iv.S, iv.S, xv.S), x.Pos())
		a := &Addr{kind: "elem", comp: elemComp(xt.Elem()), base: fmt.Sprintf("(s_arr %s)", xv.S), idx: fmt.Sprintf("(idx (s_off %s) %s)", xv.S, iv.S), typ: xt.Elem()}
		vc.comp(a.comp, vc.elemCompSort(xt.Elem()))
		vc.addrs[x] = a
		vc.vals[x] = Term{S: vc.elemSubRef(a.comp, a.base, a.idx), Sort: "Int", T: x.Type()}
	case *types.Pointer:
		at := xt.Elem().Underlying().(*types.Array)
		if !vc.isKnownNonNil(x.X) {
			vc.safe("nil-deref", fmt.Sprintf("(not (= %s 0))", xv.S), x.Pos())
		}
		if c, ok := x.Index.(*ssa.Const); !ok || c.Int64() < 0 || c.Int64() >= at.Len() {
			vc.safe("index", fmt.Sprintf("(and (<= 0 %s) (< %s %d))", iv.S, iv.S, at.Len()), x.Pos())
		}
		a := &Addr{kind: "elem", comp: elemComp(at.Elem()), base: xv.S, idx: iv.S, typ: at.Elem()}
		vc.comp(a.comp, vc.elemCompSort(at.Elem()))
		vc.addrs[x] = a
		vc.vals[x] = Term{S: vc.elemSubRef(a.comp, a.base, a.idx), Sort: "Int", T: x.Type()}
	default:
		vc.unsupp = append(vc.unsupp, "IndexAddr on "+x.X.Type().String())
		vc.havocVal(x)
	}
}

func (vc *VC) elemCompSort(elem types.Type) string {
	return "(Array Int (Array Int " + vc.sortOf(elem) + "))"
}

func (vc *VC) unop(x *ssa.UnOp) {
	switch x.Op {
	case token.MUL: // load
		a := vc.addrs[x.X]
		if a != nil && a.kind == "bytes" {
			vc.declare("(declare-fun strat (Str Int) Int)", "strat")
			t := vc.setVal(x, fmt.Sprintf("(strat %s %s)", a.base, a.idx))
			vc.assume(vc.rangeFact(t.S, x.Type()))
			return
		}
		if a == nil {
			p := vc.val(x.X)
			if !vc.isKnownNonNil(x.X) {
				vc.safe("nil-deref", fmt.Sprintf("(not (= %s 0))", p.S), x.Pos())
			}
			a = vc.pointeeAddr(p.S, x.X.Type())
			a.space = vc.spaceOf(x.X)
		}
		if at, ok := a.typ.Underlying().(*types.Array); ok {
			// whole-array load
			es := vc.sortOf(at.Elem())
			s := "(Array Int (Array Int " + es + "))"
			vc.setVal(x, fmt.Sprintf("(select %s %s)", vc.getComp(elemComp(at.Elem()), s), a.base))
			return
		}
		t := vc.setVal(x, vc.loadAddrIn(vc.heap, a))
		vc.assume(vc.rangeFact(t.S, x.Type()))
		if g, ok := x.X.(*ssa.Global); ok && (t.Sort == "Slice" || t.Sort == "Str") {
			if n, ok := vc.eng.globalSliceLen(g); ok {
				// a package-level slice variable that is never reassigned keeps the length of its initialiser
				lf := "s_len"
				if t.Sort == "Str" {
					lf = "strlen"
				}
				vc.assume(fmt.Sprintf("(= (%s %s) %d)", lf, t.S, n))
				vc.trusted["package-level slice variables that are assigned only by their initialiser keep its length: "+g.Name()] = true
			}
		}
		if af := vc.allocFact(t.S, x.Type()); af != "true" {
			vc.assume(af)
			// a value read from a heap component that has not been written since function entry existed at entry
			if _, written := vc.heap.m[a.comp]; !written && vc.heap.epoch == 0 && a.comp != "" {
				save := vc.heap
				vc.heap = vc.entryHeap
				vc.assume(vc.allocFact(t.S, x.Type()))
				vc.heap = save
			}
		}
	case token.NOT:
		vc.setVal(x, fmt.Sprintf("(not %s)", vc.val(x.X).S))
	case token.SUB:
		v := vc.val(x.X)
		if v.Sort == "Real" {
			vc.setVal(x, fmt.Sprintf("(- %s)", v.S))
		} else {
			vc.setVal(x, wrapTerm(fmt.Sprintf("(- %s)", v.S), x.Type()))
		}
	case token.ARROW:
		vc.unsupp = append(vc.unsupp, "chan receive")
		if x.CommaOk {
			vc.havocTuple(x)
		} else {
			vc.havocVal(x)
		}
	default: // ^ and others
		vc.havocVal(x)
	}
}

func (vc *VC) binop(x *ssa.BinOp) {
	a, b := vc.val(x.X), vc.val(x.Y)
	xt := x.X.Type()
	switch x.Op {
	case token.EQL, token.NEQ:
		eq := vc.eqTerm(a, b, xt, x.X, x.Y)
		if x.Op == token.NEQ {
			eq = "(not " + eq + ")"
		}
		vc.setVal(x, eq)
		return
	case token.LSS, token.LEQ, token.GTR, token.GEQ:
		op := map[token.Token]string{token.LSS: "<", token.LEQ: "<=", token.GTR: ">", token.GEQ: ">="}[x.Op]
		if a.Sort == "Str" {
			vc.declare("(declare-fun strlt (Str Str) Bool)", "strlt")
			switch x.Op {
			case token.LSS:
				vc.setVal(x, fmt.Sprintf("(strlt %s %s)", a.S, b.S))
			case token.GTR:
				vc.setVal(x, fmt.Sprintf("(strlt %s %s)", b.S, a.S))
			case token.LEQ:
				vc.setVal(x, fmt.Sprintf("(not (strlt %s %s))", b.S, a.S))
			default:
				vc.setVal(x, fmt.Sprintf("(not (strlt %s %s))", a.S, b.S))
			}
			return
		}
		vc.setVal(x, fmt.Sprintf("(%s %s %s)", op, a.S, b.S))
		return
	}
	if a.Sort == "Str" && x.Op == token.ADD {
		vc.declare("(declare-fun strcat (Str Str) Str)", "strcat")
		t := vc.setVal(x, fmt.Sprintf("(strcat %s %s)", a.S, b.S))
		vc.global(fmt.Sprintf("(= (strlen %s) (+ (strlen %s) (strlen %s)))", t.S, a.S, b.S))
		vc.global(vc.rangeFact(t.S, x.Type()))
		return
	}
	if a.Sort == "Bool" {
		switch x.Op {
		case token.AND, token.LAND:
			vc.setVal(x, fmt.Sprintf("(and %s %s)", a.S, b.S))
		case token.OR, token.LOR:
			vc.setVal(x, fmt.Sprintf("(or %s %s)", a.S, b.S))
		default:
			vc.havocVal(x)
		}
		return
	}
	if a.Sort != "Int" {
		vc.havocVal(x)
		return
	}
	switch x.Op {
	case token.ADD:
		vc.setVal(x, wrapTerm(fmt.Sprintf("(+ %s %s)", a.S, b.S), x.Type()))
	case token.SUB:
		vc.setVal(x, wrapTerm(fmt.Sprintf("(- %s %s)", a.S, b.S), x.Type()))
	case token.MUL:
		vc.setVal(x, wrapTerm(fmt.Sprintf("(* %s %s)", a.S, b.S), x.Type()))
	case token.QUO:
		vc.safe("div-by-zero", fmt.Sprintf("(not (= %s 0))", b.S), x.Pos())
		vc.setVal(x, wrapTerm(fmt.Sprintf("(go_div %s %s)", a.S, b.S), x.Type()))
	case token.REM:
		vc.safe("div-by-zero", fmt.Sprintf("(not (= %s 0))", b.S), x.Pos())
		vc.setVal(x, fmt.Sprintf("(go_rem %s %s)", a.S, b.S))
	default:
		t := vc.havocVal(x)
		_ = t
	}
}

func (vc *VC) eqTerm(a, b Term, t types.Type, xv, yv ssa.Value) string {
	switch a.Sort {
	case "Slice":
		// only comparison with nil is legal
		if isNilConst(yv) {
			return fmt.Sprintf("(= (s_arr %s) 0)", a.S)
		}
		if isNilConst(xv) {
			return fmt.Sprintf("(= (s_arr %s) 0)", b.S)
		}
	case "Str":
		if isByteSlice(t) {
			vc.declare("(declare-fun bytesnil (Str) Bool)", "bytesnil")
			o := a
			if isNilConst(xv) {
				o = b
			}
			vc.global(fmt.Sprintf("(=> (bytesnil %s) (= (strlen %s) 0))", o.S, o.S))
			return fmt.Sprintf("(bytesnil %s)", o.S)
		}
	}
	return fmt.Sprintf("(= %s %s)", a.S, b.S)
}

func isNilConst(v ssa.Value) bool {
	c, ok := v.(*ssa.Const)
	return ok && c.Value == nil
}

func (vc *VC) sliceOp(x *ssa.Slice) {
	xv := vc.val(x.X)
	lo := "0"
	if x.Low != nil {
		lo = vc.val(x.Low).S
	}
	switch xt := x.X.Type().Underlying().(type) {
	case *types.Basic: // string
		hi := fmt.Sprintf("(strlen %s)", xv.S)
		if x.High != nil {
			hi = vc.val(x.High).S
		}
		vc.safe("slice-bounds", fmt.Sprintf("(and (<= 0 %s) (<= %s %s) (<= %s (strlen %s)))", lo, lo, hi, hi, xv.S), x.Pos())
		vc.declare("(declare-fun substr (Str Int Int) Str)", "substr")
		t := vc.setVal(x, fmt.Sprintf("(substr %s %s %s)", xv.S, lo, hi))
		vc.global(vc.rangeFact(t.S, x.Type()))
		vc.assume(fmt.Sprintf("(= (strlen %s) (- %s %s))", t.S, hi, lo))
		vc.global(fmt.Sprintf("(= (substr %s 0 (strlen %s)) %s)", xv.S, xv.S, xv.S))
	case *types.Slice:
		if isByteSlice(x.X.Type()) {
			hi := fmt.Sprintf("(strlen %s)", xv.S)
			if x.High != nil {
				hi = vc.val(x.High).S
			}
			vc.safe("slice-bounds", fmt.Sprintf("(and (<= 0 %s) (<= %s %s) (<= %s (strlen %s)))", lo, lo, hi, hi, xv.S), x.Pos())
			vc.declare("(declare-fun substr (Str Int Int) Str)", "substr")
			t := vc.setVal(x, fmt.Sprintf("(substr %s %s %s)", xv.S, lo, hi))
			vc.global(vc.rangeFact(t.S, x.Type()))
			vc.assume(fmt.Sprintf("(= (strlen %s) (- %s %s))", t.S, hi, lo))
			return
		}
		hi := fmt.Sprintf("(s_len %s)", xv.S)
		if x.High != nil {
			hi = vc.val(x.High).S
		}
		vc.safe("slice-bounds", fmt.Sprintf("(and (<= 0 %s) (<= %s %s) (<= %s (s_cap %s)))", lo, lo, hi, hi, xv.S), x.Pos())
		vc.setVal(x, fmt.Sprintf("(mk_slice (s_arr %s) (+ (s_off %s) %s) (- %s %s) (- (s_cap %s) %s))", xv.S, xv.S, lo, hi, lo, xv.S, lo))
	case *types.Pointer:
		at := xt.Elem().Underlying().(*types.Array)
		hi := fmt.Sprint(at.Len())
		if x.High != nil {
			hi = vc.val(x.High).S
		}
		if x.Low != nil || x.High != nil {
			vc.safe("slice-bounds", fmt.Sprintf("(and (<= 0 %s) (<= %s %s) (<= %s %d))", lo, lo, hi, hi, at.Len()), x.Pos())
		}
		if isByteSlice(x.Type()) {
			t := vc.havocVal(x)
			vc.assume(fmt.Sprintf("(= (strlen %s) (- %s %s))", t.S, hi, lo))
			return
		}
		vc.setVal(x, fmt.Sprintf("(mk_slice %s %s (- %s %s) (- %d %s))", xv.S, lo, hi, lo, at.Len(), lo))
	default:
		vc.havocVal(x)
	}
}

func (vc *VC) mapComps(mt *types.Map) (dk, ds, vk, vs string) {
	k := typeKey(mt.Key()) + "|" + typeKey(mt.Elem())
	ks := vc.sortOf(mt.Key())
	dk, vk = "MD|"+k, "MV|"+k
	ds = "(Array Int (Array " + ks + " Bool))"
	vs = "(Array Int (Array " + ks + " " + vc.sortOf(mt.Elem()) + "))"
	vc.comp(dk, ds)
	vc.comp(vk, vs)
	return
}

func (vc *VC) mapHas(h Heap, mt *types.Map, m, k string) string {
	dk, ds, _, _ := vc.mapComps(mt)
	return fmt.Sprintf("(and (not (= %s 0)) (select (select %s %s) %s))", m, vc.getCompIn(h, dk, ds), m, k)
}

func (vc *VC) mapGet(h Heap, mt *types.Map, m, k string) string {
	_, _, vk, vs := vc.mapComps(mt)
	return fmt.Sprintf("(ite %s (select (select %s %s) %s) %s)", vc.mapHas(h, mt, m, k), vc.getCompIn(h, vk, vs), m, k, vc.zero(mt.Elem()))
}

func (vc *VC) lookup(x *ssa.Lookup) {
	xv := vc.val(x.X)
	iv := vc.val(x.Index)
	mt, ok := x.X.Type().Underlying().(*types.Map)
	if !ok { // string index
		vc.safe("index", fmt.Sprintf("(and (<= 0 %s) (< %s (strlen %s)))", iv.S, iv.S, xv.S), x.Pos())
		vc.declare("(declare-fun strat (Str Int) Int)", "strat")
		t := vc.setVal(x, fmt.Sprintf("(strat %s %s)", xv.S, iv.S))
		vc.assume(vc.rangeFact(t.S, x.Type()))
		return
	}
	val := vc.mapGet(vc.heap, mt, xv.S, iv.S)
	if x.CommaOk {
		okn := vc.fresh("ok")
		vc.define(okn, "Bool", vc.mapHas(vc.heap, mt, xv.S, iv.S))
		vn := vc.fresh("mv")
		vc.define(vn, vc.sortOf(mt.Elem()), val)
		vc.assume(vc.rangeFact(vn, mt.Elem()))
		vc.tuples[x] = []Term{{S: vn, Sort: vc.sortOf(mt.Elem()), T: mt.Elem()}, {S: okn, Sort: "Bool", T: types.Typ[types.Bool]}}
		return
	}
	t := vc.setVal(x, val)
	vc.assume(vc.rangeFact(t.S, x.Type()))
	if af := vc.allocFact(t.S, x.Type()); af != "true" {
		vc.assume(af)
	}
}

func (vc *VC) next(x *ssa.Next) {
	r := vc.val(x.Iter)
	okT := vc.havocOf(types.Typ[types.Bool], "next_ok")
	if x.IsString {
		vc.tuples[x] = []Term{okT, vc.havocOf(types.Typ[types.Int], "next_i"), vc.havocOf(types.Typ[types.Int32], "next_r")}
		return
	}
	mt, ok := r.T.Underlying().(*types.Map)
	if !ok {
		vc.tuples[x] = []Term{okT, vc.havocOf(types.Typ[types.Int], "next_k"), vc.havocOf(types.Typ[types.Int], "next_v")}
		return
	}
	k := vc.havocOf(mt.Key(), "next_k")
	v := vc.havocOf(mt.Elem(), "next_v")
	vc.assume(fmt.Sprintf("(=> %s (and %s (= %s %s)))", okT.S, vc.mapHas(vc.heap, mt, r.S, k.S), v.S, vc.mapGet(vc.heap, mt, r.S, k.S)))
	vc.mapRangeGhost(x, mt, r.S, okT.S, k.S)
	vc.tuples[x] = []Term{okT, k, v}
}

func (vc *VC) makeInterface(x *ssa.MakeInterface) {
	v := vc.val(x.X)
	tag := vc.typeTag(x.X.Type())
	fn := fmt.Sprintf("box_%d", tag)
	vc.declare(fmt.Sprintf("(declare-fun %s (%s) Int) ; %s", fn, v.Sort, typeKey(x.X.Type())), fn)
	un := vc.unboxFn(v.Sort)
	t := vc.setVal(x, fmt.Sprintf("(%s %s)", fn, v.S))
	vc.global(fmt.Sprintf("(and (> %s 0) (= (typeof %s) %d) (= (%s %s) %s))", t.S, t.S, tag, un, t.S, v.S))
}

func (vc *VC) unboxFn(sort string) string {
	un := "unbox_" + mangle(sort)
	vc.declare(fmt.Sprintf("(declare-fun %s (Int) %s)", un, sort), un)
	return un
}

func (vc *VC) typeAssert(x *ssa.TypeAssert) {
	v := vc.val(x.X)
	_, toIface := x.AssertedType.Underlying().(*types.Interface)
	var okc, res string
	rs := vc.sortOf(x.AssertedType)
	if toIface {
		okv := vc.havocOf(types.Typ[types.Bool], "ta_ok")
		vc.assume(fmt.Sprintf("(=> %s (not (= %s 0)))", okv.S, v.S))
		okc, res = okv.S, v.S
	} else {
		tag := vc.typeTag(x.AssertedType)
		okc = fmt.Sprintf("(and (not (= %s 0)) (= (typeof %s) %d))", v.S, v.S, tag)
		res = fmt.Sprintf("(%s %s)", vc.unboxFn(rs), v.S)
	}
	if x.CommaOk {
		okn := vc.fresh("ta_ok")
		vc.define(okn, "Bool", okc)
		rn := vc.fresh("ta_v")
		vc.define(rn, rs, fmt.Sprintf("(ite %s %s %s)", okn, res, vc.zero(x.AssertedType)))
		vc.assume(vc.rangeFact(rn, x.AssertedType))
		vc.tuples[x] = []Term{{S: rn, Sort: rs, T: x.AssertedType}, {S: okn, Sort: "Bool", T: types.Typ[types.Bool]}}
		return
	}
	vc.safe("type-assert", okc, x.Pos())
	t := vc.setVal(x, res)
	vc.assume(vc.rangeFact(t.S, x.AssertedType))
}

func (vc *VC) convert(x *ssa.Convert) {
	v := vc.val(x.X)
	from, to := x.X.Type(), x.Type()
	fs, ts := vc.sortOf(from), vc.sortOf(to)
	switch {
	case fs == "Int" && ts == "Int" && isIntType(from) && isIntType(to):
		flo, fhi, _ := intRange(from)
		tlo, thi, _ := intRange(to)
		if flo == tlo && fhi == thi {
			vc.vals[x] = Term{S: v.S, Sort: "Int", T: to}
			return
		}
		vc.setVal(x, wrapTerm(v.S, to))
	case fs == "Str" && ts == "Str":
		vc.vals[x] = Term{S: v.S, Sort: "Str", T: to}
	case fs == ts && fs != "Real":
		vc.vals[x] = Term{S: v.S, Sort: fs, T: to}
	default:
		vc.havocVal(x)
	}
}

// ---------- return: postconditions and frame ----------

func (vc *VC) resultNames() []string {
	sig := vc.fn.Signature
	n := sig.Results().Len()
	names := make([]string, n)
	if vc.spec != nil && len(vc.spec.Results) == n {
		copy(names, vc.spec.Results)
		return names
	}
	for i := 0; i < n; i++ {
		names[i] = sig.Results().At(i).Name()
		if names[i] == "" || names[i] == "_" {
			if n == 1 {
				names[i] = "result"
			} else {
				names[i] = fmt.Sprintf("r%d", i)
			}
			if i == n-1 && types.Identical(sig.Results().At(i).Type(), types.Universe.Lookup("error").Type()) {
				names[i] = "err"
			}
		}
	}
	return names
}

func (vc *VC) ret(x *ssa.Return) {
	if vc.inl {
		r := inlRet{guard: vc.reach[vc.curBlk], heap: vc.heap.clone()}
		for _, v := range x.Results {
			r.results = append(r.results, vc.val(v))
		}
		vc.rets = append(vc.rets, r)
		return
	}
	if vc.spec == nil {
		return
	}
	env := vc.entryEnv()
	env.heap = vc.heap
	names := vc.resultNames()
	for i, r := range x.Results {
		env.vars[names[i]] = vc.val(r)
		if len(x.Results) == 1 {
			env.vars["result"] = vc.val(r)
		}
	}
	for i, c := range vc.spec.Ensures {
		t, err := env.evalBool(c.Expr)
		if err != nil {
			vc.fail("%s ensures#%d: %v", shortKey(vc.key), i+1, err)
		}
		vc.oblige(fmt.Sprintf("ensures#%d", i+1), "ensures", t, c.Text, x.Pos())
	}
	if vc.spec.Relation != "" && len(vc.fn.Params) == 2 && len(x.Results) == 1 {
		i, j := SIdent{vc.fn.Params[0].Name()}, SIdent{vc.fn.Params[1].Name()}
		ov := SIdent{vc.spec.RelOver}
		e := SBinary{"==", SIdent{"result"}, SCall{vc.spec.Relation, []SpecExpr{SIndex{ov, i}, SIndex{ov, j}}}}
		t, err := env.evalBool(e)
		if err != nil {
			vc.fail("%s relation: %v", shortKey(vc.key), err)
		}
		vc.oblige("ensures#relation", "ensures", t, fmt.Sprintf("result == %s(%s[%s], %s[%s])", vc.spec.Relation, vc.spec.RelOver, i.Name, vc.spec.RelOver, j.Name), x.Pos())
	}
	vc.frame(x)
}
