package main

import (
	"go/constant"
	"fmt"
	"go/token"
	"go/types"
	"sort"
	"strings"

	"golang.org/x/tools/go/ssa"
)

// ---------- per-function verification condition builder ----------

type Fact struct {
	blk, idx int // position (rpo position of block, instruction index); blk == -1: global definition
	text     string
	root     bool // ownership (root) axiom: only included in queries that need frame reasoning
}

type Obl struct {
	Name   string // stable source-level name (without function prefix)
	Kind   string // ensures | requires | inv-init | inv-preserved | safe | frame | lemma | cover
	Detail string // site description
	Pos    string
	blk    int
	idx    int
	Guard  string // reachability condition of the site
	Cond   string // condition that must hold
	Inputs []string
}

type Heap struct {
	m     map[string]string
	epoch int
}

func (h Heap) clone() Heap {
	n := Heap{m: make(map[string]string, len(h.m)), epoch: h.epoch}
	for k, v := range h.m {
		n.m[k] = v
	}
	return n
}

type Comp struct {
	key  string
	sort string // full sort of the component (array or scalar)
	id   int
}

type Addr struct {
	space string // "" = shared heap; "L<n>|" = private components of a non-escaping local allocation
	kind string // field | elem | cell
	comp string
	base string
	idx  string
	typ  types.Type // type of the stored value
	// elem kind only: the element is a struct stored by value in the array; path selects a (nested) field of it
	path    []int
	elemTyp types.Type // type of the whole array element when path is non-empty
}

type LoopInfo struct {
	header  int
	blocks  map[int]bool
	ordinal int
	mods    map[string]bool
	freshOnly map[string]bool
	localOnly map[string]bool
	localSlices []*ssa.Phi
	modAll  bool
	backs   []int // back edge sources
}

type VC struct {
	eng   *Engine
	cells map[string]cellRef // captured variables of the enclosing closure tree (see cells.go)
	fn    *ssa.Function
	key   string
	spec  *FuncSpec
	pkg   *types.Package
	dry   bool
	decls []string
	dset  map[string]bool
	facts []Fact
	obls  []*Obl
	ctr   *int // shared counter: fresh names and fact/obligation sequence numbers

	comps    map[string]*Comp
	vals     map[ssa.Value]Term
	tuples   map[ssa.Value][]Term
	addrs    map[ssa.Value]*Addr
	strlits  map[string]string
	typetags map[string]int

	rpo      []int
	rpoPos   map[int]int
	anc      []map[int]bool
	isBack   map[[2]int]bool
	loops    map[int]*LoopInfo
	loopList []*LoopInfo
	heapOut  map[int]Heap
	reach    map[int]string
	edgeTerm map[[2]int]string
	written  map[int]map[string]bool // block -> comps written (dry pass)
	wroteAll map[int]bool

	entryHeap Heap
	heap      Heap
	curBlk    int // rpo position
	curIdx    int
	defers    []*ssa.Defer

	paramNames []string
	inputs     []string
	trusted    map[string]bool // assumptions used (extern contracts, callee w/o contract, ...)
	unsupp     []string
	ghostAppend map[*ssa.Phi]bool
	replay      []ReplayTerm
	useRoot     bool
	revealed    map[string]bool // opaque spec functions revealed in this VC
	revealAll   bool
	renames     map[string]string // recorded contract name -> current name of the variable declared at that position
	// inlining of contract-less repo callees
	inl      bool
	posBlk   int
	pfx      string
	inlDepth int
	rets     []inlRet
	entrySeq int
	localAllocs map[*ssa.Alloc]string // non-escaping struct allocations -> private component space
	writeRoot   ssa.Value // allocation the current store goes to (nil: unknown / pre-existing memory)
	nonFresh    map[int]map[string]bool   // block -> comps written at possibly pre-existing references
	freshRoots  map[int]map[string][]int // block -> comp -> blocks of the allocations written to
}

func (vc *VC) fresh(prefix string) string {
	(*vc.ctr)++
	return fmt.Sprintf("%s_%d", prefix, (*vc.ctr))
}

func (vc *VC) declare(line, name string) {
	if vc.dset[name] {
		return
	}
	vc.dset[name] = true
	vc.decls = append(vc.decls, line)
}

func (vc *VC) declConst(name, sort string) {
	vc.declare(fmt.Sprintf("(declare-const %s %s)", name, sort), name)
}

func (vc *VC) define(name, sort, term string) {
	vc.declConst(name, sort)
	vc.facts = append(vc.facts, Fact{blk: -1, text: fmt.Sprintf("(= %s %s)", name, term)})
}

// assume adds a guarded assumption at the current program point.
func (vc *VC) assume(text string) {
	if text == "true" {
		return
	}
	g := vc.reach[vc.curBlk]
	(*vc.ctr)++
	if g == "" || g == "true" {
		vc.facts = append(vc.facts, Fact{blk: vc.wblk(), idx: *vc.ctr, text: text})
	} else {
		vc.facts = append(vc.facts, Fact{blk: vc.wblk(), idx: *vc.ctr, text: fmt.Sprintf("(=> %s %s)", g, text)})
	}
}

// global adds a fact that is true in every state (axiom instance / definition).
func (vc *VC) global(text string) {
	vc.facts = append(vc.facts, Fact{blk: -1, text: text})
}

func (vc *VC) oblige(name, kind, cond, detail string, pos token.Pos) {
	(*vc.ctr)++
	if vc.inl {
		name = "inl[" + vc.fn.Name() + "]/" + name
	}
	o := &Obl{Name: name, Kind: kind, Detail: detail, blk: vc.wblk(), idx: *vc.ctr, Guard: vc.reach[vc.curBlk], Cond: cond}
	if pos.IsValid() {
		p := vc.eng.Prog.Fset.Position(pos)
		o.Pos = fmt.Sprintf("%s:%d", strings.TrimPrefix(p.Filename, vc.eng.RepoDir+"/"), p.Line)
	}
	vc.obls = append(vc.obls, o)
}

// ---------- sorts and declarations ----------

func (vc *VC) sortOf(t types.Type) string {
	switch u := t.Underlying().(type) {
	case *types.Basic:
		switch {
		case u.Info()&types.IsBoolean != 0:
			return "Bool"
		case u.Info()&types.IsString != 0:
			return "Str"
		case u.Info()&types.IsInteger != 0:
			return "Int"
		case u.Info()&types.IsFloat != 0:
			vc.trusted["floating-point values modelled as mathematical reals (no NaN, infinities or rounding)"] = true
			return "Real"
		default:
			return "Int"
		}
	case *types.Slice:
		if isByteSlice(t) {
			return "Str"
		}
		return "Slice"
	case *types.Struct:
		return vc.structSort(t)
	case *types.Array:
		return "(Array Int " + vc.sortOf(u.Elem()) + ")"
	default:
		return "Int"
	}
}

func (vc *VC) structSort(t types.Type) string {
	st := t.Underlying().(*types.Struct)
	name := "S_" + mangle(typeKey(t))
	if _, ok := t.(*types.Named); !ok {
		name = "S_anon_" + mangle(typeKey(t))
	}
	if vc.dset[name] {
		return name
	}
	vc.dset[name] = true // guards recursion
	var fs []string
	for i := 0; i < st.NumFields(); i++ {
		f := st.Field(i)
		fs = append(fs, fmt.Sprintf("(%s_%s %s)", name, mangle(f.Name()), vc.sortOf(f.Type())))
	}
	if len(fs) == 0 {
		fs = append(fs, fmt.Sprintf("(%s__dummy Int)", name))
	}
	vc.decls = append(vc.decls, fmt.Sprintf("(declare-datatypes ((%s 0)) (((mk_%s %s))))", name, name, strings.Join(fs, " ")))
	return name
}

func (vc *VC) zero(t types.Type) string {
	switch s := vc.sortOf(t); s {
	case "Int":
		return "0"
	case "Real":
		return "0.0"
	case "Bool":
		return "false"
	case "Str":
		return "str_empty"
	case "Slice":
		return "(mk_slice 0 0 0 0)"
	default:
		if st, ok := t.Underlying().(*types.Struct); ok {
			var fs []string
			for i := 0; i < st.NumFields(); i++ {
				fs = append(fs, vc.zero(st.Field(i).Type()))
			}
			if len(fs) == 0 {
				fs = []string{"0"}
			}
			return fmt.Sprintf("(mk_%s %s)", s, strings.Join(fs, " "))
		}
		if at, ok := t.Underlying().(*types.Array); ok {
			return fmt.Sprintf("((as const %s) %s)", s, vc.zero(at.Elem()))
		}
		return "0"
	}
}

// rangeFact returns the type invariant of a term of Go type t ("true" if none).
func (vc *VC) rangeFact(x string, t types.Type) string {
	if lo, hi, ok := intRange(t); ok {
		return fmt.Sprintf("(and (<= %s %s) (<= %s %s))", lo, x, x, hi)
	}
	switch vc.sortOf(t) {
	case "Str":
		return fmt.Sprintf("(and (>= (strlen %s) 0) (<= (strlen %s) 1152921504606846976) (=> (= (strlen %s) 0) (= %s str_empty)))", x, x, x, x)
	case "Slice":
		return fmt.Sprintf("(and (>= (s_arr %s) 0) (>= (s_off %s) 0) (>= (s_len %s) 0) (>= (s_cap %s) (s_len %s)) (<= (s_cap %s) 1152921504606846976) (<= (s_off %s) 1152921504606846976) (=> (= (s_arr %s) 0) (= (s_cap %s) 0)))", x, x, x, x, x, x, x, x, x)
	}
	return "true"
}

// allocFact: pointer-like values are nil or allocated (<= current top).
func (vc *VC) allocFact(x string, t types.Type) string {
	switch t.Underlying().(type) {
	case *types.Pointer, *types.Map:
		return fmt.Sprintf("(<= %s %s)", x, vc.getComp("top", "Int"))
	case *types.Slice:
		if !isByteSlice(t) {
			return fmt.Sprintf("(<= (s_arr %s) %s)", x, vc.getComp("top", "Int"))
		}
	}
	return "true"
}

func (vc *VC) strLit(s string) string {
	if s == "" {
		return "str_empty"
	}
	if n, ok := vc.strlits[s]; ok {
		return n
	}
	name := fmt.Sprintf("strlit_%d", len(vc.strlits))
	vc.strlits[s] = name
	vc.declare(fmt.Sprintf("(declare-const %s Str) ; %q", name, trunc(s, 60)), name)
	vc.global(fmt.Sprintf("(= (strlen %s) %d)", name, len(s)))
	return name
}

func trunc(s string, n int) string {
	s = strings.ReplaceAll(s, "\n", " ")
	if len(s) > n {
		return s[:n] + "..."
	}
	return s
}

func (vc *VC) typeTag(t types.Type) int {
	k := typeKey(t)
	if n, ok := vc.typetags[k]; ok {
		return n
	}
	n := len(vc.typetags) + 1
	vc.typetags[k] = n
	return n
}

// ---------- heap components ----------

func (vc *VC) comp(key, sort string) *Comp {
	c, ok := vc.comps[key]
	if !ok {
		c = &Comp{key: key, sort: sort, id: len(vc.comps)}
		vc.comps[key] = c
	}
	return c
}

func (vc *VC) compName(c *Comp, epoch int) string {
	name := fmt.Sprintf("H%d_%d_%s", epoch, c.id, mangle(c.key))
	vc.declConst(name, c.sort)
	return name
}

func (vc *VC) getCompIn(h Heap, key, sort string) string {
	c := vc.comp(key, sort)
	if v, ok := h.m[key]; ok {
		return v
	}
	return vc.compName(c, h.epoch)
}

func (vc *VC) getComp(key, sort string) string { return vc.getCompIn(vc.heap, key, sort) }

func (vc *VC) setComp(key, sort, term string) {
	c := vc.comp(key, sort)
	name := vc.fresh(fmt.Sprintf("H_%d", c.id))
	vc.define(name, sort, term)
	vc.heap.m[key] = name
	vc.noteWrite(key)
}

func (vc *VC) havocComp(key, sort string) string {
	c := vc.comp(key, sort)
	name := vc.fresh(fmt.Sprintf("Hh_%d", c.id))
	vc.declConst(name, sort)
	vc.heap.m[key] = name
	vc.noteWrite(key)
	return name
}

// wblk: the block (rpo position in the outermost function) the current program point belongs to.
func (vc *VC) wblk() int {
	if vc.inl {
		return vc.posBlk
	}
	return vc.curBlk
}

func (vc *VC) noteWrite(key string) {
	wb := vc.wblk()
	if vc.written[wb] == nil {
		vc.written[wb] = map[string]bool{}
	}
	vc.written[wb][key] = true
	if key == "top" || strings.HasPrefix(key, "ghost|") {
		return
	}
	if vc.writeRoot == nil || vc.inl {
		if vc.nonFresh[wb] == nil {
			vc.nonFresh[wb] = map[string]bool{}
		}
		vc.nonFresh[wb][key] = true
		return
	}
	if vc.freshRoots[wb] == nil {
		vc.freshRoots[wb] = map[string][]int{}
	}
	if vc.writeRoot == ssa.Value(localMark) {
		// allocated by this function at an unknown point (append accumulator): local, but not loop-fresh
		vc.freshRoots[wb][key] = append(vc.freshRoots[wb][key], -1)
		return
	}
	if ins, ok := vc.writeRoot.(ssa.Instruction); ok && ins.Block() != nil {
		vc.freshRoots[wb][key] = append(vc.freshRoots[wb][key], ins.Block().Index)
	}
}

// localMark: pseudo allocation root of writes into append accumulators that start as nil (their backing arrays are
// allocated by this function, at an unknown point).
var localMark = &ssa.Const{}

// allocRootOf: allocRoot, plus results of calls whose contract ensures fresh(result).
func (vc *VC) allocRootOf(v ssa.Value) ssa.Value {
	if r := allocRoot(v); r != nil {
		return r
	}
	for i := 0; i < 10; i++ {
		switch x := v.(type) {
		case *ssa.FieldAddr:
			v = x.X
			continue
		case *ssa.IndexAddr:
			v = x.X
			continue
		case *ssa.Slice:
			v = x.X
			continue
		case *ssa.Call:
			if fn := x.Call.StaticCallee(); fn != nil {
				if sp := vc.eng.specFor(funcKey(fn)); sp != nil && specEnsuresFresh(sp) {
					return x
				}
			}
		}
		break
	}
	return nil
}

// specEnsuresFresh: some ensures clause has the unconditional top-level conjunct fresh(<first result>).
func specEnsuresFresh(sp *FuncSpec) bool {
	names := map[string]bool{"result": true, "r0": true}
	if len(sp.Results) > 0 {
		names[sp.Results[0]] = true
	}
	var conj func(e SpecExpr) bool
	conj = func(e SpecExpr) bool {
		switch x := e.(type) {
		case SBinary:
			if x.Op == "&&" {
				return conj(x.X) || conj(x.Y)
			}
		case SCall:
			if x.Fun == "fresh" && len(x.Args) == 1 {
				if id, ok := x.Args[0].(SIdent); ok && names[id.Name] {
					return true
				}
			}
		}
		return false
	}
	for _, c := range append(append([]Clause{}, sp.Ensures...), sp.Assumed...) {
		if conj(c.Expr) {
			return true
		}
	}
	return false
}

// allocRoot follows an address back to the allocation it points into (nil if unknown).
func allocRoot(v ssa.Value) ssa.Value {
	for i := 0; i < 10; i++ {
		switch x := v.(type) {
		case *ssa.Alloc:
			return x
		case *ssa.MakeSlice:
			return x
		case *ssa.MakeMap:
			return x
		case *ssa.FieldAddr:
			v = x.X
		case *ssa.IndexAddr:
			v = x.X
		case *ssa.Slice:
			v = x.X
		default:
			return nil
		}
	}
	return nil
}

func (vc *VC) havocAll() {
	(*vc.ctr)++
	vc.heap = Heap{m: map[string]string{}, epoch: (*vc.ctr)}
	vc.wroteAll[vc.wblk()] = true
}

func fieldComp(st types.Type, f *types.Var) string {
	return "F|" + typeKey(st) + "|" + f.Name()
}

func (vc *VC) fieldSort(f *types.Var) string { return "(Array Int " + vc.sortOf(f.Type()) + ")" }

func (vc *VC) newRef() string {
	top := vc.getComp("top", "Int")
	r := vc.fresh("ref")
	vc.define(r, "Int", fmt.Sprintf("(+ %s 1)", top))
	vc.global(fmt.Sprintf("(> %s 0)", top)) // top0 > 0 and monotone
	vc.setComp("top", "Int", r)
	return r
}

// subRef: address of a by-value struct field nested in the struct at address base.
func (vc *VC) subRef(comp, base string) string {
	fn := "sub_" + fmt.Sprint(vc.comp(comp, "").id) + "_" + mangle(comp)
	if !vc.dset[fn] {
		vc.declare(fmt.Sprintf("(declare-fun %s (Int) Int)", fn), fn)
		vc.global(fmt.Sprintf("(forall ((x Int)) (! (< (%s x) 0) :pattern ((%s x))))", fn, fn))
		vc.facts = append(vc.facts, Fact{-1, 0, fmt.Sprintf("(forall ((x Int)) (! (= (root (%s x)) (root x)) :pattern ((%s x))))", fn, fn), true})
	}
	return fmt.Sprintf("(%s %s)", fn, base)
}

func (vc *VC) elemSubRef(comp, arr, idx string) string {
	fn := "esub_" + fmt.Sprint(vc.comp(comp, "").id) + "_" + mangle(comp)
	if !vc.dset[fn] {
		vc.declare(fmt.Sprintf("(declare-fun %s (Int Int) Int)", fn), fn)
		vc.global(fmt.Sprintf("(forall ((x Int) (y Int)) (! (< (%s x y) 0) :pattern ((%s x y))))", fn, fn))
		vc.facts = append(vc.facts, Fact{-1, 0, fmt.Sprintf("(forall ((x Int) (y Int)) (! (= (root (%s x y)) (root x)) :pattern ((%s x y))))", fn, fn), true})
	}
	return fmt.Sprintf("(%s %s %s)", fn, arr, idx)
}

func isStruct(t types.Type) bool {
	_, ok := t.Underlying().(*types.Struct)
	return ok
}

// structAddr: the address term for a struct stored at addr.
func (vc *VC) structAddr(a *Addr) string {
	switch a.kind {
	case "field":
		return vc.subRef(a.comp, a.base)
	case "elem":
		return vc.elemSubRef(a.comp, a.base, a.idx)
	default:
		return a.base
	}
}

func (vc *VC) loadStructAt(h Heap, addr string, t types.Type, space ...string) string {
	sp := ""
	if len(space) > 0 {
		sp = space[0]
	}
	st := t.Underlying().(*types.Struct)
	s := vc.structSort(t)
	var fs []string
	for i := 0; i < st.NumFields(); i++ {
		f := st.Field(i)
		ck := sp + fieldComp(t, f)
		if isStruct(f.Type()) {
			vc.comp(ck, "")
			fs = append(fs, vc.loadStructAt(h, vc.subRef(ck, addr), f.Type(), sp))
		} else {
			fs = append(fs, fmt.Sprintf("(select %s %s)", vc.getCompIn(h, ck, vc.fieldSort(f)), addr))
		}
	}
	if len(fs) == 0 {
		fs = []string{"0"}
	}
	return fmt.Sprintf("(mk_%s %s)", s, strings.Join(fs, " "))
}

func (vc *VC) storeStructAt(addr string, t types.Type, val string, space ...string) {
	sp := ""
	if len(space) > 0 {
		sp = space[0]
	}
	st := t.Underlying().(*types.Struct)
	s := vc.structSort(t)
	for i := 0; i < st.NumFields(); i++ {
		f := st.Field(i)
		ck := sp + fieldComp(t, f)
		fv := fmt.Sprintf("(%s_%s %s)", s, mangle(f.Name()), val)
		if isStruct(f.Type()) {
			vc.comp(ck, "")
			vc.storeStructAt(vc.subRef(ck, addr), f.Type(), fv, sp)
		} else {
			vc.setComp(ck, vc.fieldSort(f), fmt.Sprintf("(store %s %s %s)", vc.getComp(ck, vc.fieldSort(f)), addr, fv))
		}
	}
}

func (vc *VC) loadAddrIn(h Heap, a *Addr) string {
	if a.kind == "elem" {
		et := a.typ
		if len(a.path) > 0 {
			et = a.elemTyp
		}
		es := vc.sortOf(et)
		v := fmt.Sprintf("(select (select %s %s) %s)", vc.getCompIn(h, a.comp, "(Array Int (Array Int "+es+"))"), a.base, a.idx)
		cur := et
		for _, fi := range a.path {
			f := cur.Underlying().(*types.Struct).Field(fi)
			v = fmt.Sprintf("(%s_%s %s)", vc.structSort(cur), mangle(f.Name()), v)
			cur = f.Type()
		}
		return v
	}
	if isStruct(a.typ) {
		return vc.loadStructAt(h, vc.structAddr(a), a.typ, a.space)
	}
	vs := vc.sortOf(a.typ)
	switch a.kind {
	case "elem":
		return fmt.Sprintf("(select (select %s %s) %s)", vc.getCompIn(h, a.comp, "(Array Int (Array Int "+vs+"))"), a.base, a.idx)
	default:
		return fmt.Sprintf("(select %s %s)", vc.getCompIn(h, a.comp, "(Array Int "+vs+")"), a.base)
	}
}

// updPath returns the struct value v (of type t) with the field selected by path replaced by val.
func (vc *VC) updPath(v string, t types.Type, path []int, val string) string {
	if len(path) == 0 {
		return val
	}
	st := t.Underlying().(*types.Struct)
	s := vc.structSort(t)
	var fs []string
	for i := 0; i < st.NumFields(); i++ {
		f := st.Field(i)
		fv := fmt.Sprintf("(%s_%s %s)", s, mangle(f.Name()), v)
		if i == path[0] {
			fv = vc.updPath(fv, f.Type(), path[1:], val)
		}
		fs = append(fs, fv)
	}
	return fmt.Sprintf("(mk_%s %s)", s, strings.Join(fs, " "))
}

func (vc *VC) storeAddr(a *Addr, val string) {
	if a.kind == "elem" {
		et := a.typ
		if len(a.path) > 0 {
			et = a.elemTyp
		}
		s := "(Array Int (Array Int " + vc.sortOf(et) + "))"
		cur := vc.getComp(a.comp, s)
		old := fmt.Sprintf("(select (select %s %s) %s)", cur, a.base, a.idx)
		vc.setComp(a.comp, s, fmt.Sprintf("(store %s %s (store (select %s %s) %s %s))", cur, a.base, cur, a.base, a.idx, vc.updPath(old, et, a.path, val)))
		return
	}
	if isStruct(a.typ) {
		vc.storeStructAt(vc.structAddr(a), a.typ, val, a.space)
		return
	}
	vs := vc.sortOf(a.typ)
	switch a.kind {
	case "elem":
		s := "(Array Int (Array Int " + vs + "))"
		cur := vc.getComp(a.comp, s)
		vc.setComp(a.comp, s, fmt.Sprintf("(store %s %s (store (select %s %s) %s %s))", cur, a.base, cur, a.base, a.idx, val))
	default:
		s := "(Array Int " + vs + ")"
		vc.setComp(a.comp, s, fmt.Sprintf("(store %s %s %s)", vc.getComp(a.comp, s), a.base, val))
	}
}

func elemComp(elem types.Type) string { return "E|" + typeKey(elem) }
func cellComp(t types.Type) string    { return "C|" + typeKey(t) }

// pointeeAddr: address descriptor for a pointer value p of Go type *T that is not a known FieldAddr/IndexAddr.
func (vc *VC) pointeeAddr(p string, pt types.Type) *Addr {
	elem := pt.Underlying().(*types.Pointer).Elem()
	if isStruct(elem) {
		return &Addr{kind: "cell", base: p, typ: elem}
	}
	if at, ok := elem.Underlying().(*types.Array); ok {
		_ = at
		return &Addr{kind: "cell", comp: elemComp(at.Elem()), base: p, typ: elem}
	}
	return &Addr{kind: "cell", comp: cellComp(elem), base: p, typ: elem}
}

// zeroInit stores the zero value at a fresh address of type t.
func (vc *VC) zeroInit(r string, t types.Type, space ...string) {
	if isStruct(t) {
		vc.storeStructAt(r, t, vc.zero(t), space...)
		return
	}
	if at, ok := t.Underlying().(*types.Array); ok {
		es := vc.sortOf(at.Elem())
		s := "(Array Int (Array Int " + es + "))"
		k := elemComp(at.Elem())
		vc.setComp(k, s, fmt.Sprintf("(store %s %s ((as const (Array Int %s)) %s))", vc.getComp(k, s), r, es, vc.zero(at.Elem())))
		return
	}
	vs := vc.sortOf(t)
	s := "(Array Int " + vs + ")"
	k := cellComp(t)
	vc.setComp(k, s, fmt.Sprintf("(store %s %s %s)", vc.getComp(k, s), r, vc.zero(t)))
}

// ---------- CFG analysis ----------

func (vc *VC) analyzeCFG() {
	fn := vc.fn
	nb := len(fn.Blocks)
	vc.isBack = map[[2]int]bool{}
	for _, b := range fn.Blocks {
		for _, s := range b.Succs {
			if s.Dominates(b) {
				vc.isBack[[2]int{b.Index, s.Index}] = true
			}
		}
	}
	// RPO over forward edges from entry
	visited := make([]bool, nb)
	var post []int
	var dfs func(b *ssa.BasicBlock)
	dfs = func(b *ssa.BasicBlock) {
		visited[b.Index] = true
		for _, s := range b.Succs {
			if vc.isBack[[2]int{b.Index, s.Index}] || visited[s.Index] {
				continue
			}
			dfs(s)
		}
		post = append(post, b.Index)
	}
	dfs(fn.Blocks[0])
	vc.rpo = nil
	for i := len(post) - 1; i >= 0; i-- {
		vc.rpo = append(vc.rpo, post[i])
	}
	vc.rpoPos = map[int]int{}
	for i, b := range vc.rpo {
		vc.rpoPos[b] = i
	}
	// ancestors in the cut DAG (by rpo position)
	vc.anc = make([]map[int]bool, len(vc.rpo))
	for i, bi := range vc.rpo {
		a := map[int]bool{i: true}
		for _, p := range fn.Blocks[bi].Preds {
			if vc.isBack[[2]int{p.Index, bi}] {
				continue
			}
			pp, ok := vc.rpoPos[p.Index]
			if !ok {
				continue
			}
			for x := range vc.anc[pp] {
				a[x] = true
			}
		}
		vc.anc[i] = a
	}
	// natural loops
	vc.loops = map[int]*LoopInfo{}
	for e := range vc.isBack {
		src, h := e[0], e[1]
		li := vc.loops[h]
		if li == nil {
			li = &LoopInfo{header: h, blocks: map[int]bool{h: true}, mods: map[string]bool{}}
			vc.loops[h] = li
		}
		li.backs = append(li.backs, src)
		// reverse DFS from src stopping at h
		stack := []int{src}
		for len(stack) > 0 {
			x := stack[len(stack)-1]
			stack = stack[:len(stack)-1]
			if li.blocks[x] {
				continue
			}
			li.blocks[x] = true
			for _, p := range fn.Blocks[x].Preds {
				stack = append(stack, p.Index)
			}
		}
	}
	var hs []int
	for h := range vc.loops {
		hs = append(hs, h)
	}
	sort.Ints(hs)
	vc.loopList = nil
	for i, h := range hs {
		vc.loops[h].ordinal = i + 1
		sort.Ints(vc.loops[h].backs)
		vc.loopList = append(vc.loopList, vc.loops[h])
	}
}

// ---------- values ----------

func (vc *VC) val(v ssa.Value) Term {
	if t, ok := vc.vals[v]; ok {
		return t
	}
	switch x := v.(type) {
	case *ssa.Const:
		return vc.constTerm(x)
	case *ssa.Function:
		name := "fn_" + mangle(shortKey(funcKey(x)))
		vc.declConst(name, "Int")
		vc.global(fmt.Sprintf("(> %s 0)", name))
		return Term{S: name, Sort: "Int", T: x.Type()}
	case *ssa.Global:
		name := "glob_" + mangle(shortKey(x.String()))
		vc.declConst(name, "Int")
		vc.global(fmt.Sprintf("(< %s 0)", name))
		return Term{S: name, Sort: "Int", T: x.Type()}
	case *ssa.Builtin:
		return Term{S: "0", Sort: "Int", T: x.Type()}
	}
	// not yet defined (should not happen in RPO except through back edges)
	name := vc.fresh("undef")
	s := vc.sortOf(v.Type())
	vc.declConst(name, s)
	t := Term{S: name, Sort: s, T: v.Type()}
	vc.vals[v] = t
	return t
}

func (vc *VC) constTerm(c *ssa.Const) Term {
	t := c.Type()
	s := vc.sortOf(t)
	if c.Value == nil {
		return Term{S: vc.zero(t), Sort: s, T: t}
	}
	switch s {
	case "Bool":
		return Term{S: c.Value.String(), Sort: s, T: t}
	case "Str":
		str := c.Value.ExactString()
		if u, err := unquote(str); err == nil {
			str = u
		}
		return Term{S: vc.strLit(str), Sort: s, T: t}
	case "Int":
		v := c.Value.ExactString()
		if strings.HasPrefix(v, "-") {
			v = "(- " + v[1:] + ")"
		}
		return Term{S: v, Sort: s, T: t}
	case "Real":
		// exact rational value of the constant (floats are modelled as mathematical reals)
		fv := constant.ToFloat(c.Value)
		if fv.Kind() == constant.Float || fv.Kind() == constant.Int {
			num, den := constant.Num(fv), constant.Denom(fv)
			if num.Kind() == constant.Int && den.Kind() == constant.Int {
				ns, neg := num.ExactString(), false
				if strings.HasPrefix(ns, "-") {
					ns, neg = ns[1:], true
				}
				r := fmt.Sprintf("(/ %s.0 %s.0)", ns, den.ExactString())
				if neg {
					r = "(- " + r + ")"
				}
				return Term{S: r, Sort: s, T: t}
			}
		}
		n := vc.fresh("realconst")
		vc.declConst(n, "Real")
		return Term{S: n, Sort: s, T: t}
	}
	return Term{S: vc.zero(t), Sort: s, T: t}
}

func unquote(s string) (string, error) {
	var out string
	_, err := fmt.Sscanf(s, "%q", &out)
	return out, err
}

// setVal defines an SSA value as a named constant equal to term.
func (vc *VC) setVal(v ssa.Value, term string) Term {
	s := vc.sortOf(v.Type())
	name := vc.fresh("v_" + mangle(v.Name()))
	vc.define(name, s, term)
	t := Term{S: name, Sort: s, T: v.Type()}
	vc.vals[v] = t
	return t
}

// havocVal introduces an unconstrained SSA value (with its type invariant assumed).
func (vc *VC) havocVal(v ssa.Value) Term {
	t := vc.havocOf(v.Type(), "hv_"+mangle(v.Name()))
	vc.vals[v] = t
	return t
}

func (vc *VC) havocOf(ty types.Type, prefix string) Term {
	s := vc.sortOf(ty)
	name := vc.fresh(prefix)
	vc.declConst(name, s)
	vc.global(vc.rangeFact(name, ty))
	if af := vc.allocFact(name, ty); af != "true" {
		vc.assume(af)
	}
	return Term{S: name, Sort: s, T: ty}
}

// findLocalAllocs: struct-typed allocations whose address never escapes (it is only stored to, loaded from and used
// as the base of field addresses that are themselves only loaded/stored). Their fields are local variables, not
// shared memory, and get private heap components.
func (vc *VC) findLocalAllocs() {
	vc.localAllocs = map[*ssa.Alloc]string{}
	var onlyLocalUses func(v ssa.Value, depth int) bool
	onlyLocalUses = func(v ssa.Value, depth int) bool {
		refs := v.Referrers()
		if refs == nil || depth > 4 {
			return false
		}
		for _, r := range *refs {
			switch u := r.(type) {
			case *ssa.DebugRef:
			case *ssa.Store:
				if u.Addr != v || u.Val == v {
					return false
				}
			case *ssa.UnOp:
				if u.Op != token.MUL {
					return false
				}
			case *ssa.FieldAddr:
				if !onlyLocalUses(u, depth+1) {
					return false
				}
			default:
				return false
			}
		}
		return true
	}
	n := 0
	for _, b := range vc.fn.Blocks {
		for _, ins := range b.Instrs {
			al, ok := ins.(*ssa.Alloc)
			if !ok {
				continue
			}
			if !isStruct(al.Type().Underlying().(*types.Pointer).Elem()) {
				continue
			}
			if onlyLocalUses(al, 0) {
				n++
				vc.localAllocs[al] = fmt.Sprintf("L%s%d|", vc.pfx, n)
			}
		}
	}
}

// spaceOf: the private component space an address belongs to ("" for shared memory).
func (vc *VC) spaceOf(v ssa.Value) string {
	switch x := v.(type) {
	case *ssa.Alloc:
		return vc.localAllocs[x]
	case *ssa.FieldAddr:
		if a := vc.addrs[x]; a != nil {
			return a.space
		}
	}
	return ""
}

type inlRet struct {
	guard   string
	results []Term
	heap    Heap
}
