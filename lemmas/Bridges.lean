import Mathlib.Data.List.Sort

open List

/-- C01 bridge: the first element passing `p` is unchanged when elements failing `p` are removed
    (equivalently: inserted). `q` marks the authorised operations; forged ones fail `p`. -/
theorem first_stable_under_insert {α : Type} (p q : α → Bool)
    (h : ∀ x, p x = true → q x = true) (l : List α) :
    (l.filter q).find? p = l.find? p := by
  induction l with
  | nil => simp
  | cons a t ih =>
    by_cases hq : q a = true
    · simp [List.filter_cons, hq, List.find?_cons, ih]
    · have hp : p a = false := by
        cases hpa : p a with
        | false => rfl
        | true => exact absurd (h a hpa) hq
      simp [List.filter_cons, hq, List.find?_cons, hp, ih]

/-- C02 bridge: a list sorted by an antisymmetric relation is determined by its multiset. -/
theorem sorted_perm_unique {α : Type} (r : α → α → Prop) [Std.Antisymm r]
    (s t : List α) (hs : s.Pairwise r) (ht : t.Pairwise r) (hp : s.Perm t) : s = t :=
  List.Perm.eq_of_pairwise' hs ht hp

/-- C06 bridge: filtering the sorted full history equals sorting the filtered (truncated) history. -/
theorem filter_sort_comm {α : Type} (r : α → α → Prop) [Std.Antisymm r]
    (p : α → Bool) (l s t : List α)
    (hs : s.Pairwise r) (hp : s.Perm l)
    (ht : t.Pairwise r) (htp : t.Perm (l.filter p)) :
    s.filter p = t :=
  List.Perm.eq_of_pairwise' (hs.filter p) ht ((hp.filter p).trans htp.symm)

/-- The order the comparator contracts pin down: (time, number) lexicographic, non-strict. -/
def lexLe (a b : Nat × Nat) : Prop := a.1 < b.1 ∨ (a.1 = b.1 ∧ a.2 ≤ b.2)

/-- It is antisymmetric, so on operations with pairwise distinct (time, number) pairs the sorted list is unique:
    resolution does not depend on the order in which the store returned the operations (C02). -/
instance : Std.Antisymm lexLe where
  antisymm a b h1 h2 := by
    unfold lexLe at h1 h2
    rcases h1 with h1 | ⟨e1, l1⟩ <;> rcases h2 with h2 | ⟨e2, l2⟩
    · omega
    · omega
    · omega
    · exact Prod.ext e1 (Nat.le_antisymm l1 l2)

theorem sorted_history_unique (s t : List (Nat × Nat))
    (hs : s.Pairwise lexLe) (ht : t.Pairwise lexLe) (hp : s.Perm t) : s = t :=
  sorted_perm_unique lexLe s t hs ht hp
