package main

import (
	"fmt"

	"github.com/trustbloc/sidetree-core-go/pkg/api/protocol"
	"github.com/trustbloc/sidetree-core-go/pkg/document"
	"github.com/trustbloc/sidetree-core-go/pkg/versions/1_0/doctransformer/didtransformer"
)

func main() {
	rm := &protocol.ResolutionModel{Doc: document.Document{}, RecoveryCommitment: "EiR", UpdateCommitment: "EiU",
		AnchorOrigin: map[string]interface{}{"a": []interface{}{"b", "c"}}}
	res, err := didtransformer.New().TransformDocument(rm, protocol.TransformationInfo{"id": "did:sidetree:abc", "published": true})
	fmt.Println(res != nil, err)
}
