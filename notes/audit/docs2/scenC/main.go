package main

import (
	"encoding/json"
	"fmt"

	"github.com/trustbloc/sidetree-core-go/pkg/api/operation"
	"github.com/trustbloc/sidetree-core-go/pkg/api/protocol"
	"github.com/trustbloc/sidetree-core-go/pkg/dochandler"
	docmocks "github.com/trustbloc/sidetree-core-go/pkg/dochandler/mocks"
	"github.com/trustbloc/sidetree-core-go/pkg/document"
	"github.com/trustbloc/sidetree-core-go/pkg/mocks"
	"github.com/trustbloc/sidetree-core-go/pkg/versions/1_0/doctransformer/didtransformer"
	"github.com/trustbloc/sidetree-core-go/pkg/versions/1_0/operationparser"
)

func main() {
	pc := mocks.NewMockProtocolClient()
	for _, v := range pc.Versions {
		v.OperationParserReturns(operationparser.New(v.Protocol()))
		v.DocumentTransformerReturns(didtransformer.New())
	}
	pc.CurrentVersion.OperationParserReturns(operationparser.New(pc.Protocol))
	pc.CurrentVersion.DocumentTransformerReturns(didtransformer.New())

	anchored := &operation.AnchoredOperation{Type: operation.TypeCreate, UniqueSuffix: "EiAbc", CanonicalReference: "ref1"}
	deact := &operation.AnchoredOperation{Type: operation.TypeDeactivate, UniqueSuffix: "EiAbc", CanonicalReference: "ref2"}
	rm := &protocol.ResolutionModel{Doc: document.Document{}, Deactivated: true, CanonicalReference: "ref1", EquivalentReferences: []string{"eq1"},
		PublishedOperations: []*operation.AnchoredOperation{anchored, deact}, CreatedTime: 1600000000}
	proc := &docmocks.OperationProcessor{}
	proc.ResolveReturns(rm, nil)

	h := dochandler.New("did:sidetree", nil, pc, nil, proc, &mocks.MetricsProvider{})
	res, err := h.ResolveDocument("did:sidetree:EiAbc")
	if err != nil {
		panic(err)
	}
	b, _ := json.Marshal(res.DocumentMetadata)
	fmt.Println(string(b))
}
