package main

import (
	"encoding/json"
	"fmt"

	"github.com/trustbloc/sidetree-core-go/pkg/api/protocol"
	"github.com/trustbloc/sidetree-core-go/pkg/document"
	"github.com/trustbloc/sidetree-core-go/pkg/patch"
	"github.com/trustbloc/sidetree-core-go/pkg/versions/1_0/doccomposer"
	"github.com/trustbloc/sidetree-core-go/pkg/versions/1_0/doctransformer/didtransformer"
)

const key = `{"id":%q,"type":"JsonWebKey2020","purposes":["authentication"],"publicKeyJwk":{"kty":"EC","crv":"P-256","x":%q,"y":"y"}}`

func main() {
	doc, _ := document.FromBytes([]byte(`{"publicKey":[` + fmt.Sprintf(key, "k1", "old") + `]}`))
	p, err := patch.NewAddPublicKeysPatch(`[` + fmt.Sprintf(key, "K1", "new") + `]`)
	if err != nil {
		panic(err)
	}
	res, err := doccomposer.New().ApplyPatches(doc, []patch.Patch{p})
	b, _ := json.Marshal(res)
	fmt.Println("apply:", string(b), err)
	rm := &protocol.ResolutionModel{Doc: res}
	rr, err := didtransformer.New().TransformDocument(rm, protocol.TransformationInfo{"id": "did:sidetree:abc", "published": true})
	b, _ = json.Marshal(rr.Document)
	fmt.Println("transform:", string(b), err)
}
