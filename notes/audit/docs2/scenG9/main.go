package main

import (
	"encoding/json"
	"fmt"

	"github.com/trustbloc/sidetree-core-go/pkg/document"
	"github.com/trustbloc/sidetree-core-go/pkg/patch"
	"github.com/trustbloc/sidetree-core-go/pkg/versions/1_0/doccomposer"
)

func main() {
	doc, _ := document.FromBytes([]byte(`{"alsoKnownAs":["https://u1.example.com"],"label":"","active":false,"note":"n"}`))
	p, err := patch.NewAddAlsoKnownAs(`["https://u2.example.com"]`)
	if err != nil {
		panic(err)
	}
	res, err := doccomposer.New().ApplyPatches(doc, []patch.Patch{p})
	b, _ := json.Marshal(res)
	fmt.Println("apply:", string(b), err)
}
