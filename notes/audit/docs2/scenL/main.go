package main

import (
	"encoding/json"
	"fmt"

	"github.com/trustbloc/sidetree-core-go/pkg/document"
	"github.com/trustbloc/sidetree-core-go/pkg/patch"
	"github.com/trustbloc/sidetree-core-go/pkg/versions/1_0/doccomposer"
)

func main() {
	var ps []patch.Patch
	for i := 1; i <= 10; i++ {
		p, err := patch.NewAddAlsoKnownAs(fmt.Sprintf(`["https://u%d.example.com"]`, i))
		if err != nil {
			panic(err)
		}
		ps = append(ps, p)
	}
	res, err := doccomposer.New().ApplyPatches(document.Document{}, ps)
	b, _ := json.Marshal(res)
	fmt.Println("apply:", string(b), err)
}
