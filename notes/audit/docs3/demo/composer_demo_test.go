package doccomposer

import (
	"encoding/json"
	"fmt"
	"testing"

	"github.com/trustbloc/sidetree-core-go/pkg/document"
	"github.com/trustbloc/sidetree-core-go/pkg/patch"
)

func TestAuditDemoComposer(t *testing.T) {
	doc, _ := document.FromBytes([]byte(`{"publicKey":[{"id":"k1","type":"JsonWebKey2020","purposes":["authentication"],"publicKeyJwk":{"kty":"EC","crv":"P-256","x":"old","y":"y"}}]}`))
	var p patch.Patch
	_ = json.Unmarshal([]byte(`{"action":"add-public-keys","publicKeys":[{"id":"k1","type":"Ed25519VerificationKey2018","purposes":["authentication"],"publicKeyBase58":"new"}]}`), &p)
	res, err := New().ApplyPatches(doc, []patch.Patch{p})
	b, _ := json.Marshal(res)
	fmt.Printf("TYPECHANGE err=%v result=%s\n", err, b)

	var ps []patch.Patch
	for i := 1; i <= 300; i++ {
		var q patch.Patch
		_ = json.Unmarshal([]byte(fmt.Sprintf(`{"action":"add-also-known-as","uris":["https://u%d.example.com"]}`, i)), &q)
		ps = append(ps, q)
	}
	res, err = New().ApplyPatches(document.Document{}, ps)
	fmt.Printf("LONGLIST err=%v alsoKnownAs entries=%d (300 patches, each adding a new URI)\n", err, len(document.StringArray(res["alsoKnownAs"])))
}
