package operationparser

import (
	"encoding/json"
	"fmt"
	"strings"
	"testing"

	"github.com/trustbloc/sidetree-core-go/pkg/document"
	"github.com/trustbloc/sidetree-core-go/pkg/patch"
	"github.com/trustbloc/sidetree-core-go/pkg/versions/1_0/doccomposer"
	"github.com/trustbloc/sidetree-core-go/pkg/versions/1_0/operationparser/patchvalidator"
)

func TestAuditDemoValidator(t *testing.T) {
	ops := []string{}
	for i := 0; i < 8; i++ {
		ops = append(ops, fmt.Sprintf(`{"op":"add","path":"/note%d","value":%d}`, i, i))
	}
	ops = append(ops, `{"op":"remove","path":"/publicKey"}`)
	var p patch.Patch
	_ = json.Unmarshal([]byte(`{"action":"ietf-json-patch","patches":[`+strings.Join(ops, ",")+`]}`), &p)
	err := patchvalidator.Validate(p)
	fmt.Printf("JSONPATCH9 validate err=%v\n", err)
	if err == nil {
		doc, _ := document.FromBytes([]byte(`{"publicKey":[{"id":"k1","type":"JsonWebKey2020","publicKeyJwk":{"kty":"EC","crv":"P-256","x":"x","y":"y"}}],"service":[{"id":"s1","type":"t","serviceEndpoint":"https://a.example"}]}`))
		res, aerr := doccomposer.New().ApplyPatches(doc, []patch.Patch{p})
		b, _ := json.Marshal(res)
		fmt.Printf("JSONPATCH9 apply err=%v result=%s\n", aerr, b)
	}
	for _, js := range []string{
		`{"action":"add-public-keys","publicKeys":[{"id":"K1","type":"JsonWebKey2020","purposes":["authentication"],"publicKeyJwk":{"kty":"EC","crv":"P-256","x":"eA","y":"eQ"}}]}`,
		`{"action":"add-services","services":[{"id":"ſ1","type":"t","serviceEndpoint":"https://a.example"}]}`,
		`{"action":"add-public-keys","publicKeys":[{"id":"k1","type":"Ed25519VerificationKey2020","publicKeyBase58":"abc","publicKeyMultibase":"zabc"}]}`,
		`{"action":"add-services","services":[{"id":"s1","type":"tttttttttttttttttttttttttttttt ","serviceEndpoint":"https://a.example"}]}`,
	} {
		var q patch.Patch
		_ = json.Unmarshal([]byte(js), &q)
		fmt.Printf("VALIDATE %s -> %v\n", js, patchvalidator.Validate(q))
	}
}
