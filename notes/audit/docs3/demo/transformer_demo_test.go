package didtransformer_test

import (
	"encoding/json"
	"fmt"
	"testing"

	"github.com/trustbloc/sidetree-core-go/pkg/api/protocol"
	"github.com/trustbloc/sidetree-core-go/pkg/document"
	"github.com/trustbloc/sidetree-core-go/pkg/versions/1_0/doctransformer/didtransformer"
)

func TestAuditDemoTransformer(t *testing.T) {
	doc := map[string]interface{}{
		"alsoKnownAs": []interface{}{"did:web:alias.example", "https://alias.example/1", "https://blog.example/me"},
		"publicKey": []interface{}{map[string]interface{}{"id": "k1", "type": "JsonWebKey2020", "purposes": []interface{}{"authentication"},
			"publicKeyJwk": map[string]interface{}{"kty": "EC", "crv": "P-256", "x": "eA", "y": "eQ", "kid": "signing-2024", "alg": "ES256"}}},
	}
	rm := &protocol.ResolutionModel{Doc: document.FromJSONLDObject(doc), RecoveryCommitment: "EiR", UpdateCommitment: "EiU", CreatedTime: 1600000000}
	info := protocol.TransformationInfo{"id": "did:sidetree:EiAbc", "published": true, "canonicalId": "did:sidetree:EiAbc",
		"equivalentId": []string{"did:sidetree:EiAbc"}}
	res, err := didtransformer.New().TransformDocument(rm, info)
	if err != nil {
		t.Fatal(err)
	}
	md, _ := json.Marshal(res.DocumentMetadata)
	d, _ := json.Marshal(res.Document)
	fmt.Printf("METADATA %s\nDOCUMENT %s\n", md, d)
}
