#!/bin/bash
export GOFLAGS=-mod=mod GOPROXY=off GOSUMDB=off GOTOOLCHAIN=local
wt=$1; t=$2; cp /tmp/audit-glue3/_out/demo/zz_*_test.go $wt/pkg/batch/; (cd $wt && go test -v -vet=off -count=1 -run "^$t\$" ./pkg/batch/ 2>&1 | grep -E "DEMO|^FAIL|panic|^ok|cannot|undefined" | cut -c1-500); rm -f $wt/pkg/batch/zz_c20_harness_test.go $wt/pkg/batch/zz_demo_test.go
