// Bounded stand-in for property C20 ("end to end, submitted operations resolve to the reference state").
// Labelled *bounded*: it never counts as a proof. Injected by bin/check with `go test -overlay`.
//
// What is wired together (all REAL components, nothing mocked except CAS, ledger and the two stores):
//
//	dochandler.DocumentHandler (ProcessOperation / ResolveDocument, default decorator)
//	  -> batch.Writer (this package) -> cutter.BatchCutter -> opqueue.MemQueue
//	  -> version 1.0 txnprovider.OperationHandler (batch files) -> in-memory CAS
//	  -> in-memory anchor ledger (c20Anchor records every WriteAnchor call as a transaction with increasing time/number)
//	  -> observer.Observer -> version 1.0 txnprocessor.TxnProcessor -> txnprovider.OperationProvider (reads CAS)
//	  -> in-memory operation store (+ optional in-memory unpublished-operation store)
//	  -> processor.OperationProcessor.Resolve -> 1.0 operation parser / applier / composer -> real DID transformer / validator
//
// Flush points are deterministic: the harness lives in package batch and calls the unexported
// (*Writer).processAvailable(true) ("batch time-out tick", step T) or processAvailable(false) ("monitor tick",
// step M) itself; Writer.Start is never called. Every new anchor is handed to the running observer one at a
// time over an unbuffered channel followed by an empty notification, so the observer has finished the
// transaction when the second send returns.
//
// Oracle: an independent reference state machine per DID (c20Reference) over abstract operation intents
// (which key is revealed, which keys are committed to next, which keys / services / alsoKnownAs the client
// meant to add, which document a recover installs). It never looks at request bytes, batch files or stored
// operations; the only thing it takes from the run is the ORDER in which the ledger anchored the intents
// ("in anchoring order" is part of the statement). Interpretation choices, all from the statement and the
// Sidetree state machine of C03: the create is applied first; recover / deactivate operations are followed along
// the recovery-commitment chain; then update operations anchored after the last applied recover (or after the
// create) along the update-commitment chain (where "last applied recover" could mean last in chain or latest
// anchored, both results are accepted); a recover replaces the document and both commitments; a deactivate
// empties the document and clears the commitments; with an unpublished-operation store the accepted but not yet
// anchored operations count as anchored after every anchored one, in acceptance order. The statement does not say
// which transaction names canonicalId / equivalentId: the transaction of the create or of any applied recover is
// accepted (plain short-form DID for an applied recover that is not anchored yet), the equivalent ids must then
// carry that transaction's equivalent references; no canonicalId before the create is anchored.
//
// Observation recorded as coverage, not as a failure (the statement says "in anchoring order"): a deferred operation
// is re-queued BEHIND the operations of the same DID that were accepted after it, so a DID's operations can be anchored
// in another order than they were accepted (coverage "did-anchored-in-another-order-than-accepted"); an update that
// was signed against the commitment of a recover accepted before it can so be anchored before that recover and then
// never takes effect although ProcessOperation accepted it ("accepted-update-without-effect-because-of-anchoring-order").
package batch

import (
	"crypto/ed25519"
	"crypto/sha256"
	"encoding/json"
	"errors"
	"fmt"
	"math/rand"
	"os"
	"reflect"
	"runtime"
	"runtime/debug"
	"sort"
	"strconv"
	"strings"
	"sync"
	"testing"
	"time"

	"github.com/trustbloc/logutil-go/pkg/log"

	"github.com/trustbloc/sidetree-core-go/pkg/api/operation"
	"github.com/trustbloc/sidetree-core-go/pkg/api/protocol"
	"github.com/trustbloc/sidetree-core-go/pkg/api/txn"
	"github.com/trustbloc/sidetree-core-go/pkg/batch/cutter"
	"github.com/trustbloc/sidetree-core-go/pkg/batch/opqueue"
	"github.com/trustbloc/sidetree-core-go/pkg/canonicalizer"
	"github.com/trustbloc/sidetree-core-go/pkg/commitment"
	"github.com/trustbloc/sidetree-core-go/pkg/compression"
	"github.com/trustbloc/sidetree-core-go/pkg/dochandler"
	"github.com/trustbloc/sidetree-core-go/pkg/document"
	"github.com/trustbloc/sidetree-core-go/pkg/encoder"
	"github.com/trustbloc/sidetree-core-go/pkg/hashing"
	"github.com/trustbloc/sidetree-core-go/pkg/jws"
	"github.com/trustbloc/sidetree-core-go/pkg/mocks"
	"github.com/trustbloc/sidetree-core-go/pkg/observer"
	"github.com/trustbloc/sidetree-core-go/pkg/patch"
	"github.com/trustbloc/sidetree-core-go/pkg/processor"
	"github.com/trustbloc/sidetree-core-go/pkg/util/edsigner"
	"github.com/trustbloc/sidetree-core-go/pkg/util/pubkey"
	"github.com/trustbloc/sidetree-core-go/pkg/versions/1_0/client"
	"github.com/trustbloc/sidetree-core-go/pkg/versions/1_0/doccomposer"
	"github.com/trustbloc/sidetree-core-go/pkg/versions/1_0/doctransformer/didtransformer"
	"github.com/trustbloc/sidetree-core-go/pkg/versions/1_0/docvalidator/didvalidator"
	"github.com/trustbloc/sidetree-core-go/pkg/versions/1_0/operationapplier"
	"github.com/trustbloc/sidetree-core-go/pkg/versions/1_0/operationparser"
	"github.com/trustbloc/sidetree-core-go/pkg/versions/1_0/txnprocessor"
	"github.com/trustbloc/sidetree-core-go/pkg/versions/1_0/txnprovider"
)

const (
	c20NS        = "did:sidetree"
	c20SHA256    = 18
	c20SHA512    = 19
	c20V1Genesis = 100 // genesis time of the second protocol version (the first one has genesis time 0)
	c20V1MaxOps  = 4   // MaxOperationCount of the second version (the first one: cfg.maxOps)
	c20BaseTime  = 1000
	c20Unpub     = 1 << 20 // position of not yet anchored operations in the reference (after every anchored one)
	c20MaxPerKey = 20
)

var c20AllTypes = []operation.Type{operation.TypeCreate, operation.TypeUpdate, operation.TypeRecover, operation.TypeDeactivate}

// ---------------------------------------------------------------- result bookkeeping

type c20Failure struct {
	Key    string `json:"key"`
	Case   string `json:"case"`
	Detail string `json:"detail"`
}

type c20Check struct {
	Name       string         `json:"name"`
	Bound      string         `json:"bound"`
	Enumerated int            `json:"enumerated"`
	Nontrivial int            `json:"distinct_nontrivial"` // cases in which at least one resolution was compared after an anchored batch
	Rule       string         `json:"rule"`
	Exhaustive bool           `json:"exhaustive"`
	Samples    []string       `json:"samples"`
	Failures   []c20Failure   `json:"failures"`
	Counts     map[string]int `json:"failure_counts,omitempty"`
	Coverage   map[string]int `json:"coverage,omitempty"`
	seconds    float64
}

// c20KeyWanted: when the harness is run on behalf of another property (bounded/C15, bounded/C16 re-use it), only the failure
// classes that speak about THAT property are recorded: VERIF_C20_KEYS holds comma-separated key prefixes.
func c20KeyWanted(key string) bool {
	f := os.Getenv("VERIF_C20_KEYS")
	if f == "" {
		return true
	}
	for _, p := range strings.Split(f, ",") {
		if p != "" && strings.HasPrefix(key, p) {
			return true
		}
	}
	return false
}

func (c *c20Check) fail(key, cs, detail string) {
	if !c20KeyWanted(key) {
		return
	}
	if c.Counts == nil {
		c.Counts = map[string]int{}
	}
	if c.Counts[key]++; c.Counts[key] <= c20MaxPerKey {
		c.Failures = append(c.Failures, c20Failure{key, cs, detail})
	}
}

const c20Rule = "after every anchored and observed batch, ResolveDocument(short-form DID) of every DID equals the independent reference " +
	"state machine applied to that DID's accepted operations in the order the ledger anchored them (keys with id/type/purposes/JWK, services with " +
	"id/type/endpoint, alsoKnownAs, updateCommitment, recoveryCommitment, deactivated flag, published flag <=> create anchored, canonicalId and " +
	"equivalentId built from the references of the transaction that anchored the create or an applied recover; unknown DID <=> resolution error; " +
	"with unpublished-operation store the waiting operations count as anchored next, in acceptance order); every stored operation is one that " +
	"was accepted, is stamped with the anchoring transaction's time/number/references and with the protocol version in force when it was " +
	"accepted; after the queue has been drained every accepted operation was anchored exactly once; a create's immediate response, its " +
	"long-form resolution before anchoring and its short-form resolution right after anchoring carry the same document up to the DID string, " +
	"and the same commitments; no panic, no stalled stage"

// ---------------------------------------------------------------- client keys (deterministic)

type c20Key struct {
	label string
	priv  ed25519.PrivateKey
	jwk   *jws.JWK
	mutex sync.Mutex
	c, rv map[uint]string
}

var c20Keys sync.Map

func c20GetKey(label string) *c20Key {
	if k, ok := c20Keys.Load(label); ok {
		return k.(*c20Key)
	}
	seed := sha256.Sum256([]byte("verif-c20/" + label))
	priv := ed25519.NewKeyFromSeed(seed[:])
	jwk, err := pubkey.GetPublicKeyJWK(priv.Public())
	if err != nil {
		panic("harness: " + err.Error())
	}
	k, _ := c20Keys.LoadOrStore(label, &c20Key{label: label, priv: priv, jwk: jwk, c: map[uint]string{}, rv: map[uint]string{}})
	return k.(*c20Key)
}

func (k *c20Key) commit(code uint) string {
	k.mutex.Lock()
	defer k.mutex.Unlock()
	if s, ok := k.c[code]; ok {
		return s
	}
	s, err := commitment.GetCommitment(k.jwk, code)
	if err != nil {
		panic("harness: " + err.Error())
	}
	k.c[code] = s
	return s
}

func (k *c20Key) reveal(code uint) string {
	k.mutex.Lock()
	defer k.mutex.Unlock()
	if s, ok := k.rv[code]; ok {
		return s
	}
	s, err := commitment.GetRevealValue(k.jwk, code)
	if err != nil {
		panic("harness: " + err.Error())
	}
	k.rv[code] = s
	return s
}

func (k *c20Key) signer() client.Signer { return edsigner.New(k.priv, "EdDSA", "") }

// ---------------------------------------------------------------- abstract document content

type c20PK struct {
	ID, Type string
	Purposes []string // sorted
	X        string   // OKP / Ed25519 JWK x
}

type c20Svc struct{ ID, Type, Endpoint string }

type c20Doc struct {
	Keys []c20PK
	Svcs []c20Svc
	Aka  []string
}

func (k c20PK) json() string {
	p, _ := json.Marshal(k.Purposes)
	return fmt.Sprintf(`{"id":%q,"type":%q,"purposes":%s,"publicKeyJwk":{"kty":"OKP","crv":"Ed25519","x":%q}}`, k.ID, k.Type, p, k.X)
}

func (s c20Svc) json() string {
	return fmt.Sprintf(`{"id":%q,"type":%q,"serviceEndpoint":%q}`, s.ID, s.Type, s.Endpoint)
}

func (d c20Doc) json() string {
	var ks, ss []string
	for _, k := range d.Keys {
		ks = append(ks, k.json())
	}
	for _, s := range d.Svcs {
		ss = append(ss, s.json())
	}
	return fmt.Sprintf(`{"publicKey":[%s],"service":[%s]}`, strings.Join(ks, ","), strings.Join(ss, ","))
}

func (d c20Doc) clone() c20Doc {
	return c20Doc{append([]c20PK(nil), d.Keys...), append([]c20Svc(nil), d.Svcs...), append([]string(nil), d.Aka...)}
}

// ---------------------------------------------------------------- operation intents and the reference state machine

var c20KindName = map[byte]string{'c': "create", 'k': "update", 's': "update", 'j': "update", 'r': "recover", 'd': "deactivate"}

// c20Intent is what the client meant an operation to do; the reference works on intents only.
type c20Intent struct {
	kind         byte // c create, k update/add key, s update/add service, j update/json-patch alsoKnownAs, r recover, d deactivate
	did, seq     int
	reveal       string // label of the revealed key ("" for create)
	nextU, nextR string // labels of the keys committed to next
	code         uint
	addKey       *c20PK
	addSvc       *c20Svc
	aka          []string
	doc          *c20Doc // create / recover

	id         string // suffix|type|reveal value: identity of the operation on the wire
	version    uint64 // genesis time of the protocol version in force when it was accepted
	acceptedAt int
	anchoredIn []int // transaction numbers in which the operation was found stored
}

func (in *c20Intent) String() string {
	return fmt.Sprintf("%c:%c%d", 'A'+in.did, in.kind, in.seq)
}

type c20Placed struct {
	in  *c20Intent
	pos int // transaction number; c20Unpub+acceptedAt if not anchored yet
}

type c20State struct {
	exists, deactivated bool
	doc                 c20Doc
	uKey, rKey          string
	code                uint
	last                byte
	createPos           int
	applied             []*c20Intent
}

// c20Reference applies the placed operations of one DID. lastMode 0: updates must be anchored after the recover that
// was applied last in the chain; 1: after the latest anchored applied recover.
func c20Reference(ops []c20Placed, lastMode int) c20State {
	var st c20State
	best := -1
	for i, o := range ops {
		if o.in.kind == 'c' && (best < 0 || o.pos < ops[best].pos) {
			best = i
		}
	}
	if best < 0 {
		return st
	}
	cr := ops[best]
	st = c20State{exists: true, doc: cr.in.doc.clone(), uKey: cr.in.nextU, rKey: cr.in.nextR, code: cr.in.code, last: 'c',
		createPos: cr.pos, applied: []*c20Intent{cr.in}}
	used := map[*c20Intent]bool{cr.in: true}
	next := func(full bool, reveal string, after int) *c20Placed {
		var found *c20Placed
		for i := range ops {
			o := &ops[i]
			isFull := o.in.kind == 'r' || o.in.kind == 'd'
			if o.in.kind == 'c' || isFull != full || used[o.in] || o.in.reveal != reveal {
				continue
			}
			if !full && o.pos <= after {
				continue
			}
			if found == nil || o.pos < found.pos {
				found = o
			}
		}
		return found
	}
	lastPos := st.createPos
	if lastPos >= c20Unpub {
		lastPos = 0 // a create that is not anchored yet: every update qualifies
	}
	for {
		o := next(true, st.rKey, 0)
		if o == nil {
			break
		}
		used[o.in] = true
		st.applied = append(st.applied, o.in)
		st.last = o.in.kind
		if o.in.kind == 'd' {
			st.deactivated, st.doc, st.uKey, st.rKey = true, c20Doc{}, "", ""
			return st
		}
		st.doc, st.uKey, st.rKey = o.in.doc.clone(), o.in.nextU, o.in.nextR
		if lastMode == 0 || o.pos > lastPos {
			lastPos = o.pos
		}
	}
	for {
		o := next(false, st.uKey, lastPos)
		if o == nil {
			break
		}
		used[o.in] = true
		st.applied = append(st.applied, o.in)
		st.last = o.in.kind
		switch o.in.kind {
		case 'k':
			st.doc.Keys = append(st.doc.Keys, *o.in.addKey)
		case 's':
			st.doc.Svcs = append(st.doc.Svcs, *o.in.addSvc)
		case 'j':
			st.doc.Aka = append([]string(nil), o.in.aka...)
		}
		st.uKey = o.in.nextU
	}
	return st
}

// c20View is what a resolution shows (expected: rendered from a reference state, observed: extracted from a result).
type c20View struct {
	Err           string
	ID            string
	Keys          []c20PK
	Svcs          []c20Svc
	Aka           []string
	UC, RC        string
	Deactivated   bool
	Published     bool
	CanonicalID   string
	EquivalentIDs []string
	Canon         []c20Canon // expected only: acceptable canonical ids, each with the equivalent ids it requires
}

// c20Canon: the statement does not say which transaction names the canonical id. Accepted: the transaction that
// anchored the create or any applied recover (the operations that define the document); for a recover that is
// applied but not anchored yet, the plain short-form DID.
type c20Canon struct {
	ID    string
	Equiv []string
}

func c20CanonOf(t *c20Txn, suffix string) c20Canon {
	if t == nil {
		return c20Canon{ID: c20NS + ":" + suffix, Equiv: []string{c20NS + ":" + suffix}}
	}
	c := c20Canon{ID: c20NS + ":" + t.canonical + ":" + suffix}
	c.Equiv = []string{c.ID}
	for _, e := range t.equivalent {
		c.Equiv = append(c.Equiv, c20NS+":"+e+":"+suffix)
	}
	return c
}

func (st c20State) view(did, suffix string, txnOf func(*c20Intent) *c20Txn) c20View {
	if !st.exists {
		return c20View{Err: "not found"}
	}
	v := c20View{ID: did, Keys: st.doc.Keys, Svcs: st.doc.Svcs, Aka: st.doc.Aka, Deactivated: st.deactivated}
	if st.uKey != "" {
		v.UC = c20GetKey(st.uKey).commit(st.code)
	}
	if st.rKey != "" {
		v.RC = c20GetKey(st.rKey).commit(st.code)
	}
	if txnOf != nil && txnOf(st.applied[0]) != nil {
		v.Published = true
		for _, in := range st.applied {
			if in.kind == 'c' || in.kind == 'r' {
				v.Canon = append(v.Canon, c20CanonOf(txnOf(in), suffix))
			}
		}
	}
	return v
}

var c20Relationships = []string{"authentication", "assertionMethod", "keyAgreement", "capabilityDelegation", "capabilityInvocation"}

func c20Str(v interface{}) string {
	s, _ := v.(string)
	return s
}

// c20Observe extracts the view from a resolution result. did is the DID string the document is expected to use.
func c20Observe(res *document.ResolutionResult, err error, did string) (c20View, map[string]interface{}) {
	if err != nil {
		return c20View{Err: err.Error()}, nil
	}
	if res == nil {
		return c20View{Err: "<nil result, nil error>"}, nil
	}
	raw, e := json.Marshal(res)
	if e != nil {
		return c20View{Err: "result cannot be marshalled: " + e.Error()}, nil
	}
	var top map[string]interface{}
	if e := json.Unmarshal(raw, &top); e != nil {
		return c20View{Err: "result cannot be unmarshalled: " + e.Error()}, nil
	}
	doc, _ := top["didDocument"].(map[string]interface{})
	meta, _ := top["didDocumentMetadata"].(map[string]interface{})
	method, _ := meta["method"].(map[string]interface{})
	v := c20View{ID: c20Str(doc["id"]), UC: c20Str(method["updateCommitment"]), RC: c20Str(method["recoveryCommitment"]),
		CanonicalID: c20Str(meta["canonicalId"])}
	v.Deactivated, _ = meta["deactivated"].(bool)
	v.Published, _ = method["published"].(bool)
	if l, ok := meta["equivalentId"].([]interface{}); ok {
		for _, e := range l {
			v.EquivalentIDs = append(v.EquivalentIDs, c20Str(e))
		}
	}
	if l, ok := doc["alsoKnownAs"].([]interface{}); ok {
		for _, e := range l {
			v.Aka = append(v.Aka, c20Str(e))
		}
	}
	purposes := map[string][]string{}
	referenced := map[string]bool{}
	for _, rel := range c20Relationships {
		l, _ := doc[rel].([]interface{})
		for _, e := range l {
			if id, ok := e.(string); ok {
				purposes[id] = append(purposes[id], rel)
				referenced[id] = true
			} else {
				b, _ := json.Marshal(e)
				purposes["!embedded"] = append(purposes["!embedded"], rel+"="+string(b))
				referenced["!embedded"] = true
			}
		}
	}
	vms, _ := doc["verificationMethod"].([]interface{})
	for _, e := range vms {
		m, _ := e.(map[string]interface{})
		full := c20Str(m["id"])
		k := c20PK{ID: full, Type: c20Str(m["type"])}
		if strings.HasPrefix(full, did+"#") {
			k.ID = full[len(did)+1:]
		}
		if c := c20Str(m["controller"]); c != did {
			k.ID += "!controller=" + c
		}
		if jwk, ok := m["publicKeyJwk"].(map[string]interface{}); ok {
			k.X = c20Str(jwk["x"])
			if c20Str(jwk["kty"]) != "OKP" || c20Str(jwk["crv"]) != "Ed25519" {
				k.X += "!" + c20Str(jwk["kty"]) + "/" + c20Str(jwk["crv"])
			}
		}
		k.Purposes = append([]string(nil), purposes[full]...)
		sort.Strings(k.Purposes)
		delete(referenced, full)
		v.Keys = append(v.Keys, k)
	}
	for id := range referenced { // relationship entries that point to no verification method
		v.Keys = append(v.Keys, c20PK{ID: "!dangling:" + id, Purposes: purposes[id]})
	}
	svcs, _ := doc["service"].([]interface{})
	for _, e := range svcs {
		m, _ := e.(map[string]interface{})
		s := c20Svc{ID: c20Str(m["id"]), Type: c20Str(m["type"])}
		if strings.HasPrefix(s.ID, did+"#") {
			s.ID = s.ID[len(did)+1:]
		}
		if ep, ok := m["serviceEndpoint"].(string); ok {
			s.Endpoint = ep
		} else {
			b, _ := json.Marshal(m["serviceEndpoint"])
			s.Endpoint = "!" + string(b)
		}
		v.Svcs = append(v.Svcs, s)
	}
	return v, doc
}

func c20Show(v interface{}) string { b, _ := json.Marshal(v); return string(b) }

// c20Diff lists the aspects in which the observed view differs from the expected one. publication: also compare
// the published flag, canonical id and equivalent ids.
func c20Diff(exp, got c20View, publication bool) (what, detail []string) {
	add := func(w string, e, g interface{}) {
		what = append(what, w)
		detail = append(detail, fmt.Sprintf("%s: expected %s, observed %s", w, c20Show(e), c20Show(g)))
	}
	if exp.Err != "" {
		if got.Err == "" {
			add("unexpected-document", "resolution error (DID has no accepted create visible)", got)
		}
		return
	}
	if got.Err != "" {
		add("resolve-error", "a document", got.Err)
		return
	}
	if exp.ID != got.ID {
		add("did-id", exp.ID, got.ID)
	}
	if len(exp.Keys)+len(got.Keys) > 0 && !reflect.DeepEqual(exp.Keys, got.Keys) {
		add("keys", exp.Keys, got.Keys)
	}
	if len(exp.Svcs)+len(got.Svcs) > 0 && !reflect.DeepEqual(exp.Svcs, got.Svcs) {
		add("services", exp.Svcs, got.Svcs)
	}
	if len(exp.Aka)+len(got.Aka) > 0 && !reflect.DeepEqual(exp.Aka, got.Aka) {
		add("also-known-as", exp.Aka, got.Aka)
	}
	if exp.UC != got.UC {
		add("update-commitment", exp.UC, got.UC)
	}
	if exp.RC != got.RC {
		add("recovery-commitment", exp.RC, got.RC)
	}
	if exp.Deactivated != got.Deactivated {
		add("deactivated", exp.Deactivated, got.Deactivated)
	}
	if !publication {
		return
	}
	if exp.Published != got.Published {
		add("published", exp.Published, got.Published)
	}
	if !exp.Published {
		if got.CanonicalID != "" {
			add("canonical-id", "none (the create is not anchored)", got.CanonicalID)
		}
		return
	}
	var canon *c20Canon
	for i := range exp.Canon {
		if exp.Canon[i].ID == got.CanonicalID {
			canon = &exp.Canon[i]
		}
	}
	if canon == nil {
		add("canonical-id", exp.Canon, got.CanonicalID)
		return
	}
	for _, e := range canon.Equiv {
		found := false
		for _, g := range got.EquivalentIDs {
			found = found || g == e
		}
		if !found {
			add("equivalent-id", canon.Equiv, got.EquivalentIDs)
			break
		}
	}
	return
}

// ---------------------------------------------------------------- in-memory environment

type c20Version struct {
	p           protocol.Protocol
	tp          protocol.TxnProcessor
	parser      protocol.OperationParser
	applier     protocol.OperationApplier
	handler     protocol.OperationHandler
	provider    protocol.OperationProvider
	composer    protocol.DocumentComposer
	validator   protocol.DocumentValidator
	transformer protocol.DocumentTransformer
}

func (v *c20Version) Version() string                                   { return "1.0" }
func (v *c20Version) Protocol() protocol.Protocol                       { return v.p }
func (v *c20Version) TransactionProcessor() protocol.TxnProcessor       { return v.tp }
func (v *c20Version) OperationParser() protocol.OperationParser         { return v.parser }
func (v *c20Version) OperationApplier() protocol.OperationApplier       { return v.applier }
func (v *c20Version) OperationHandler() protocol.OperationHandler       { return v.handler }
func (v *c20Version) OperationProvider() protocol.OperationProvider     { return v.provider }
func (v *c20Version) DocumentComposer() protocol.DocumentComposer       { return v.composer }
func (v *c20Version) DocumentValidator() protocol.DocumentValidator     { return v.validator }
func (v *c20Version) DocumentTransformer() protocol.DocumentTransformer { return v.transformer }

// c20Protocol is the protocol client: versions sorted by genesis time, cur = index of the version in force.
type c20Protocol struct {
	mutex    sync.RWMutex
	versions []*c20Version
	cur      int
}

func (c *c20Protocol) Current() (protocol.Version, error) {
	c.mutex.RLock()
	defer c.mutex.RUnlock()
	return c.versions[c.cur], nil
}

func (c *c20Protocol) Get(t uint64) (protocol.Version, error) {
	c.mutex.RLock()
	defer c.mutex.RUnlock()
	for i := len(c.versions) - 1; i >= 0; i-- {
		if t >= c.versions[i].p.GenesisTime {
			return c.versions[i], nil
		}
	}
	return nil, fmt.Errorf("protocol parameters are not defined for anchoring time: %d", t)
}

func (c *c20Protocol) ForNamespace(ns string) (protocol.Client, error) {
	if ns != c20NS {
		return nil, fmt.Errorf("protocol client not found for namespace [%s]", ns)
	}
	return c, nil
}

type c20Stored struct {
	op  operation.AnchoredOperation // copy taken when the operation was put
	txn int                         // number of the transaction the observer was working on
}

// c20Store is the operation store (written by the transaction processor, read by the resolver).
type c20Store struct {
	failPuts int
	mutex sync.RWMutex
	ops   map[string][]*operation.AnchoredOperation
	log   []c20Stored
	cur   int
}

func (s *c20Store) Put(ops []*operation.AnchoredOperation) error {
	s.mutex.Lock()
	defer s.mutex.Unlock()
	if s.failPuts > 0 {
		s.failPuts--
		return errors.New("injected: operation store unavailable")
	}
	for _, op := range ops {
		s.ops[op.UniqueSuffix] = append(s.ops[op.UniqueSuffix], op)
		s.log = append(s.log, c20Stored{*op, s.cur})
	}
	return nil
}

func (s *c20Store) Get(suffix string) ([]*operation.AnchoredOperation, error) {
	s.mutex.RLock()
	defer s.mutex.RUnlock()
	ops, ok := s.ops[suffix]
	if !ok {
		return nil, errors.New("uniqueSuffix not found in the store")
	}
	return append([]*operation.AnchoredOperation(nil), ops...), nil
}

// c20Identity names an operation on the wire: suffix, type and revealed value.
func c20Identity(suffix string, typ operation.Type, request []byte) string {
	var r struct {
		RevealValue string `json:"revealValue"`
	}
	_ = json.Unmarshal(request, &r)
	return suffix + "|" + string(typ) + "|" + r.RevealValue
}

// c20UnpubStore is the unpublished-operation store shared by document handler, resolver and transaction processor.
type c20UnpubStore struct {
	mutex sync.RWMutex
	ops   map[string][]*operation.AnchoredOperation
}

func (s *c20UnpubStore) Put(op *operation.AnchoredOperation) error {
	s.mutex.Lock()
	defer s.mutex.Unlock()
	s.ops[op.UniqueSuffix] = append(s.ops[op.UniqueSuffix], op)
	return nil
}

func (s *c20UnpubStore) Delete(op *operation.AnchoredOperation) error {
	s.mutex.Lock()
	defer s.mutex.Unlock()
	id := c20Identity(op.UniqueSuffix, op.Type, op.OperationRequest)
	var keep []*operation.AnchoredOperation
	for _, o := range s.ops[op.UniqueSuffix] {
		if c20Identity(o.UniqueSuffix, o.Type, o.OperationRequest) != id {
			keep = append(keep, o)
		}
	}
	if len(keep) == 0 {
		delete(s.ops, op.UniqueSuffix)
	} else {
		s.ops[op.UniqueSuffix] = keep
	}
	return nil
}

func (s *c20UnpubStore) DeleteAll(ops []*operation.AnchoredOperation) error {
	for _, op := range ops {
		_ = s.Delete(op)
	}
	return nil
}

func (s *c20UnpubStore) Get(suffix string) ([]*operation.AnchoredOperation, error) {
	s.mutex.RLock()
	defer s.mutex.RUnlock()
	ops, ok := s.ops[suffix]
	if !ok {
		return nil, errors.New("not found")
	}
	return append([]*operation.AnchoredOperation(nil), ops...), nil
}

type c20Txn struct {
	n          int
	anchor     string
	version    uint64
	refs       []*operation.Reference
	canonical  string
	equivalent []string
}

func (t *c20Txn) sidetree() txn.SidetreeTxn {
	return txn.SidetreeTxn{Namespace: c20NS, AnchorString: t.anchor, TransactionTime: uint64(c20BaseTime + t.n/2),
		TransactionNumber: uint64(t.n), ProtocolVersion: t.version, CanonicalReference: t.canonical,
		EquivalentReferences: append([]string(nil), t.equivalent...)}
}

// c20Anchor is the anchoring system: every WriteAnchor becomes the next transaction of the ledger.
type c20Anchor struct {
	mutex sync.Mutex
	txns  []*c20Txn
}

func (a *c20Anchor) WriteAnchor(anchor string, _ []*protocol.AnchorDocument, refs []*operation.Reference, version uint64) error {
	a.mutex.Lock()
	defer a.mutex.Unlock()
	n := len(a.txns) + 1
	a.txns = append(a.txns, &c20Txn{n: n, anchor: anchor, version: version, refs: refs,
		canonical: "uEiCanonical" + strconv.Itoa(n), equivalent: []string{"uEiEquivalent" + strconv.Itoa(n) + "a", "uEiEquivalent" + strconv.Itoa(n) + "b"}})
	return nil
}

func (a *c20Anchor) Read(int) (bool, *txn.SidetreeTxn) { return false, nil }

func (a *c20Anchor) since(n int) []*c20Txn {
	a.mutex.Lock()
	defer a.mutex.Unlock()
	return append([]*c20Txn(nil), a.txns[n:]...)
}

type c20Ledger struct{ ch chan []txn.SidetreeTxn }

func (l *c20Ledger) RegisterForSidetreeTxn() <-chan []txn.SidetreeTxn { return l.ch }

type c20Ctx struct {
	pc     protocol.Client
	anchor AnchorWriter
	queue  cutter.OperationQueue
}

func (c *c20Ctx) Protocol() protocol.Client             { return c.pc }
func (c *c20Ctx) Anchor() AnchorWriter                  { return c.anchor }
func (c *c20Ctx) OperationQueue() cutter.OperationQueue { return c.queue }

type c20Cfg struct {
	maxOps   uint // MaxOperationCount of the first protocol version
	unpub    bool // with an unpublished-operation store
	versions int  // 1 or 2
}

func (c c20Cfg) String() string {
	u := 0
	if c.unpub {
		u = 1
	}
	return fmt.Sprintf("max=%d unpub=%d versions=%d", c.maxOps, u, c.versions)
}

type c20World struct {
	cfg      c20Cfg
	pc       *c20Protocol
	store    *c20Store
	unpub    *c20UnpubStore
	anchor   *c20Anchor
	queue    *opqueue.MemQueue
	writer   *Writer
	dh       *dochandler.DocumentHandler
	obs      *observer.Observer
	ledger   *c20Ledger
	observed int
}

func c20NewVersion(p protocol.Protocol, cas *mocks.MockCasClient, store *c20Store, unpub *c20UnpubStore) *c20Version {
	parser := operationparser.New(p)
	dc := doccomposer.New()
	cp := compression.New(compression.WithDefaultAlgorithms())
	provider := txnprovider.NewOperationProvider(p, parser, cas, cp)
	var topts []txnprocessor.Option
	if unpub != nil {
		topts = append(topts, txnprocessor.WithUnpublishedOperationStore(unpub, c20AllTypes))
	}
	return &c20Version{p: p, parser: parser, applier: operationapplier.New(p, parser, dc), composer: dc,
		handler:  txnprovider.NewOperationHandler(p, cas, cp, parser, &mocks.MetricsProvider{}),
		provider: provider, validator: didvalidator.New(), transformer: didtransformer.New(),
		tp: txnprocessor.New(&txnprocessor.Providers{OpStore: store, OperationProtocolProvider: provider}, topts...)}
}

func c20NewWorld(cfg c20Cfg) (*c20World, error) {
	w := &c20World{cfg: cfg, store: &c20Store{ops: map[string][]*operation.AnchoredOperation{}}, anchor: &c20Anchor{},
		queue: &opqueue.MemQueue{}, ledger: &c20Ledger{ch: make(chan []txn.SidetreeTxn)}}
	if cfg.unpub {
		w.unpub = &c20UnpubStore{ops: map[string][]*operation.AnchoredOperation{}}
	}
	cas := mocks.NewMockCasClient(nil)
	p0 := mocks.GetDefaultProtocolParameters()
	p0.GenesisTime, p0.MaxOperationCount, p0.MultihashAlgorithms = 0, cfg.maxOps, []uint{c20SHA256}
	w.pc = &c20Protocol{versions: []*c20Version{c20NewVersion(p0, cas, w.store, w.unpub)}}
	if cfg.versions == 2 {
		// the second version prefers SHA2-512 (still accepts SHA2-256), has another batch size and no longer allows
		// ietf-json-patch: operations accepted under the first version must keep being handled under the first one
		p1 := p0
		p1.GenesisTime, p1.MaxOperationCount, p1.MultihashAlgorithms = c20V1Genesis, c20V1MaxOps, []uint{c20SHA512, c20SHA256}
		p1.Patches = []string{"add-public-keys", "remove-public-keys", "add-services", "remove-services"}
		w.pc.versions = append(w.pc.versions, c20NewVersion(p1, cas, w.store, w.unpub))
	}
	var err error
	w.writer, err = New(c20NS, &c20Ctx{w.pc, w.anchor, w.queue}, WithBatchTimeout(time.Hour), WithMonitorInterval(time.Hour))
	if err != nil {
		return nil, err
	}
	w.writer.batchTimeoutTicker.Stop() // the harness ticks by hand
	w.writer.monitorTicker.Stop()
	var popts []processor.Option
	var dopts []dochandler.Option
	if cfg.unpub {
		popts = append(popts, processor.WithUnpublishedOperationStore(w.unpub))
		dopts = append(dopts, dochandler.WithUnpublishedOperationStore(w.unpub, c20AllTypes))
	}
	w.dh = dochandler.New(c20NS, nil, w.pc, w.writer, processor.New(c20NS, w.store, w.pc, popts...), &mocks.MetricsProvider{}, dopts...)
	w.obs = observer.New(&observer.Providers{Ledger: w.ledger, ProtocolClientProvider: w.pc})
	w.obs.Start()
	return w, nil
}

func (w *c20World) close() { w.obs.Stop() }

// ---------------------------------------------------------------- cases

type c20Step struct {
	kind byte // S submit the next operation of DID did, T time-out tick, M monitor tick, V switch to the second protocol version
	did  int
}

type c20Case struct {
	cfg   c20Cfg
	seqs  []string // per DID: kinds of its operations, starts with c
	steps []c20Step
}

func (c c20Case) text() string {
	var sb strings.Builder
	sb.WriteString(c.cfg.String() + " |")
	for i, s := range c.seqs {
		fmt.Fprintf(&sb, " %c=%s", 'A'+i, s)
	}
	sb.WriteString(" |")
	for _, s := range c.steps {
		if s.kind == 'S' {
			fmt.Fprintf(&sb, " %c", 'A'+s.did)
		} else {
			fmt.Fprintf(&sb, " %c", s.kind)
		}
	}
	return sb.String()
}

// c20ParseCase: cfg "max unpub versions", seqs "cks cr", steps "A B T A V M".
func c20ParseCase(maxOps uint, unpub bool, versions int, seqs, steps string) c20Case {
	c := c20Case{cfg: c20Cfg{maxOps, unpub, versions}, seqs: strings.Fields(seqs)}
	for _, f := range strings.Fields(steps) {
		if f[0] >= 'A' && f[0] <= 'C' {
			c.steps = append(c.steps, c20Step{'S', int(f[0] - 'A')})
		} else {
			c.steps = append(c.steps, c20Step{kind: f[0]})
		}
	}
	return c
}

type c20Finding struct{ key, detail string }

type c20Outcome struct {
	findings   []c20Finding
	trace      string
	compared   int  // resolutions compared against the reference
	reordered  bool // some DID was anchored in another order than accepted
	superseded bool // ... and the final reference state differs from the state the client expected (acceptance order)
	recUpd     bool // some batch held a recover and an update
	deactOnly  bool // some batch held deactivate operations only
	deferred2  bool // some batch deferred two or more operations
	mixedQueue bool // operations accepted under both versions were queued at the same time
	ambiguous  bool // the two readings of "last applied recover" differ somewhere (either is accepted)
	longForm   int  // creates whose long-form resolution before anchoring was compared with the response
	shortForm  int  // creates whose short-form resolution right after anchoring was compared with the response
}

type c20DID struct {
	idx                   int
	name                  string
	seq                   string
	next                  int
	code                  uint
	suffix, did           string
	rGen, uGen            int
	nKey, nSvc            int
	intents               []*c20Intent // accepted, acceptance order
	createSeen            bool         // create anchored and observed
	respDoc               interface{}  // create response document, DID string normalised
	respUC, respRC        string
	shortChecked, created bool
	long                  string
}

type c20Runner struct {
	c        c20Case
	w        *c20World
	dids     []*c20DID
	byID     map[string]*c20Intent
	out      c20Outcome
	trace    []string
	accepted int
	seen     map[string]bool // finding keys already recorded for this case
	txns     map[int]*c20Txn
	aborted  bool
}

func (r *c20Runner) fail(key, format string, a ...interface{}) {
	if r.seen[key] {
		return
	}
	r.seen[key] = true
	r.out.findings = append(r.out.findings, c20Finding{key, fmt.Sprintf(format, a...)})
}

// guard runs f and turns a panic into a finding.
func (r *c20Runner) guard(stage string, f func()) {
	defer func() {
		if p := recover(); p != nil {
			buf := make([]byte, 2048)
			buf = buf[:runtime.Stack(buf, false)]
			r.fail("panic/"+stage, "%v\n%s", p, buf)
			r.aborted = true
		}
	}()
	f()
}

func c20Normalise(doc map[string]interface{}, dids ...string) interface{} {
	b, _ := json.Marshal(doc)
	s := string(b)
	for _, d := range dids {
		s = strings.ReplaceAll(s, d, "$DID")
	}
	var v interface{}
	_ = json.Unmarshal([]byte(s), &v)
	return v
}

func (d *c20DID) newKey() *c20PK {
	n := d.nKey
	d.nKey++
	k := &c20PK{ID: fmt.Sprintf("key-%d", n), Type: "JsonWebKey2020", Purposes: []string{"authentication"},
		X: c20GetKey(fmt.Sprintf("doc/%s/k%d", d.name, n)).jwk.X}
	if n%2 == 1 {
		k.Purposes = []string{"assertionMethod", "authentication"}
	}
	return k
}

func (d *c20DID) newSvc() *c20Svc {
	n := d.nSvc
	d.nSvc++
	typ := "LinkedDomains"
	if n%2 == 1 {
		typ = "DIDCommMessaging"
	}
	return &c20Svc{ID: fmt.Sprintf("svc-%d", n), Type: typ, Endpoint: fmt.Sprintf("https://%s.example.com/endpoint/%d", strings.ToLower(d.name), n)}
}

func (d *c20DID) newDoc() *c20Doc {
	return &c20Doc{Keys: []c20PK{*d.newKey()}, Svcs: []c20Svc{*d.newSvc()}}
}

func (d *c20DID) rLabel(g int) string { return fmt.Sprintf("%s/recovery%d", d.name, g) }
func (d *c20DID) uLabel(g int) string { return fmt.Sprintf("%s/update%d", d.name, g) }

// build makes the intent and the signed request of the DID's next operation of the given kind.
func (d *c20DID) build(kind byte, code uint) (*c20Intent, []byte, error) {
	in := &c20Intent{kind: kind, did: d.idx, seq: d.next, code: code}
	var req []byte
	var err error
	switch kind {
	case 'c':
		in.doc, in.nextR, in.nextU = d.newDoc(), d.rLabel(0), d.uLabel(0)
		req, err = client.NewCreateRequest(&client.CreateRequestInfo{OpaqueDocument: in.doc.json(), MultihashCode: code,
			RecoveryCommitment: c20GetKey(in.nextR).commit(code), UpdateCommitment: c20GetKey(in.nextU).commit(code)})
	case 'k', 's', 'j':
		var p patch.Patch
		switch kind {
		case 'k':
			in.addKey = d.newKey()
			p, err = patch.NewAddPublicKeysPatch("[" + in.addKey.json() + "]")
		case 's':
			in.addSvc = d.newSvc()
			p, err = patch.NewAddServiceEndpointsPatch("[" + in.addSvc.json() + "]")
		default:
			in.aka = []string{fmt.Sprintf("https://aka.example.com/%s/%d", strings.ToLower(d.name), d.next)}
			p, err = patch.NewJSONPatch(fmt.Sprintf(`[{"op":"add","path":"/alsoKnownAs","value":[%q]}]`, in.aka[0]))
		}
		if err != nil {
			return nil, nil, err
		}
		in.reveal, in.nextU = d.uLabel(d.uGen), d.uLabel(d.uGen+1)
		k := c20GetKey(in.reveal)
		req, err = client.NewUpdateRequest(&client.UpdateRequestInfo{DidSuffix: d.suffix, Patches: []patch.Patch{p},
			UpdateCommitment: c20GetKey(in.nextU).commit(code), UpdateKey: k.jwk, MultihashCode: code, Signer: k.signer(),
			RevealValue: k.reveal(code)})
	case 'r':
		in.doc, in.reveal, in.nextR, in.nextU = d.newDoc(), d.rLabel(d.rGen), d.rLabel(d.rGen+1), d.uLabel(d.uGen+1)
		k := c20GetKey(in.reveal)
		req, err = client.NewRecoverRequest(&client.RecoverRequestInfo{DidSuffix: d.suffix, RecoveryKey: k.jwk,
			OpaqueDocument: in.doc.json(), RecoveryCommitment: c20GetKey(in.nextR).commit(code),
			UpdateCommitment: c20GetKey(in.nextU).commit(code), MultihashCode: code, Signer: k.signer(), RevealValue: k.reveal(code)})
	case 'd':
		in.reveal = d.rLabel(d.rGen)
		k := c20GetKey(in.reveal)
		req, err = client.NewDeactivateRequest(&client.DeactivateRequestInfo{DidSuffix: d.suffix, RecoveryKey: k.jwk,
			Signer: k.signer(), RevealValue: k.reveal(code)})
	default:
		err = fmt.Errorf("unknown kind %c", kind)
	}
	return in, req, err
}

func (r *c20Runner) currentGenesis() uint64 {
	v, _ := r.w.pc.Current()
	return v.Protocol().GenesisTime
}

func (r *c20Runner) submit(di int) {
	d := r.dids[di]
	if d.next >= len(d.seq) {
		return
	}
	kind := d.seq[d.next]
	if kind != 'c' && !d.created {
		d.next++ // the create was refused (already reported): nothing to build on
		return
	}
	if kind != 'c' && !r.c.cfg.unpub {
		// without an unpublished-operation store the document handler cannot know a DID before its create is
		// anchored and observed: let the batch time-out fire first
		for i := 0; i < 3 && !d.createSeen && !r.aborted; i++ {
			r.trace = append(r.trace, "(T)")
			r.tick(true)
		}
	}
	genesis := r.currentGenesis()
	if kind == 'j' && genesis != 0 {
		kind = 'k' // the second version does not allow ietf-json-patch: a valid client sends another update
	}
	if kind == 'c' {
		d.code = c20SHA256
		if genesis != 0 {
			d.code = c20SHA512
		}
	}
	in, req, err := d.build(kind, d.code)
	if err != nil {
		r.fail("pipeline-error/client", "%s: request could not be built: %v", in, err)
		d.next++
		return
	}
	r.trace = append(r.trace, in.String())
	d.next++
	if kind == 'c' {
		var cr struct {
			SuffixData map[string]interface{} `json:"suffixData"`
			Delta      map[string]interface{} `json:"delta"`
		}
		_ = json.Unmarshal(req, &cr)
		d.suffix, err = hashing.CalculateModelMultihash(cr.SuffixData, d.code)
		if err != nil {
			r.fail("pipeline-error/client", "suffix: %v", err)
			return
		}
		d.did = c20NS + ":" + d.suffix
	}
	var res *document.ResolutionResult
	r.guard("process-operation", func() { res, err = r.w.dh.ProcessOperation(req, genesis) })
	if r.aborted {
		return
	}
	if err != nil {
		r.fail("valid-operation-rejected/"+c20KindName[kind], "%s (a valid next operation of its DID, protocol version %d) was refused: %v", in, genesis, err)
		return
	}
	in.id = c20Identity(d.suffix, operation.Type(c20KindName[kind]), req)
	in.version, in.acceptedAt = genesis, r.accepted
	r.accepted++
	d.intents = append(d.intents, in)
	r.byID[in.id] = in
	switch kind {
	case 'c':
		d.created = true
		r.checkCreate(d, in, req, res)
	case 'r':
		d.rGen++
		d.uGen++
	case 'd':
	default:
		d.uGen++
	}
	if len(r.w.pc.versions) == 2 {
		q, _ := r.w.queue.Peek(r.w.queue.Len())
		v0, v1 := false, false
		for _, o := range q {
			v0, v1 = v0 || o.ProtocolVersion == 0, v1 || o.ProtocolVersion != 0
		}
		r.out.mixedQueue = r.out.mixedQueue || (v0 && v1)
	}
}

// checkCreate: immediate response and long-form resolution before anchoring.
func (r *c20Runner) checkCreate(d *c20DID, in *c20Intent, req []byte, res *document.ResolutionResult) {
	exp := c20Reference([]c20Placed{{in, c20Unpub}}, 0).view(d.did, d.suffix, nil)
	got, doc := c20Observe(res, nil, d.did)
	what, detail := c20Diff(exp, got, false)
	if got.Err == "" && got.Published {
		what, detail = append(what, "published"), append(detail, "published: expected false for a create response")
	}
	for i, w := range what {
		r.fail("create-response-differs/response-"+w, "%s: %s", in, detail[i])
	}
	if doc == nil {
		return
	}
	d.respDoc, d.respUC, d.respRC = c20Normalise(doc, d.did), got.UC, got.RC

	var m map[string]interface{}
	_ = json.Unmarshal(req, &m)
	delete(m, "type")
	jcs, err := canonicalizer.MarshalCanonical(m)
	if err != nil {
		r.fail("pipeline-error/client", "long form: %v", err)
		return
	}
	long := d.did + ":" + encoder.EncodeToString(jcs)
	d.long = long
	var lres *document.ResolutionResult
	r.guard("resolve-long-form", func() { lres, err = r.w.dh.ResolveDocument(long) })
	if r.aborted {
		return
	}
	lgot, ldoc := c20Observe(lres, err, long)
	if lgot.Err != "" {
		r.fail("create-response-differs/long-form-resolution-error", "%s: long-form resolution before anchoring failed: %s", in, lgot.Err)
		return
	}
	r.out.longForm++
	if n := c20Normalise(ldoc, long, d.did); !reflect.DeepEqual(n, d.respDoc) {
		r.fail("create-response-differs/long-form-document", "%s: create response %s, long-form resolution %s", in, c20Show(d.respDoc), c20Show(n))
	}
	if lgot.UC != d.respUC || lgot.RC != d.respRC {
		r.fail("create-response-differs/long-form-commitments", "%s: response %s / %s, long form %s / %s", in, d.respUC, d.respRC, lgot.UC, lgot.RC)
	}
	if lgot.Published {
		r.fail("create-response-differs/long-form-published", "%s: long-form resolution before anchoring says published", in)
	}
}

func (r *c20Runner) switchVersion() {
	if len(r.w.pc.versions) < 2 {
		return
	}
	r.w.pc.mutex.Lock()
	r.w.pc.cur = 1
	r.w.pc.mutex.Unlock()
	r.trace = append(r.trace, "V")
}

// tick fires the batch time-out (force) or the monitor interval, then lets the observer see the new anchors one by one.
func (r *c20Runner) tick(force bool) {
	if r.aborted {
		return
	}
	r.guard("batch-writer", func() { r.w.writer.processAvailable(force) })
	if r.aborted {
		return
	}
	for _, t := range r.w.anchor.since(r.w.observed) {
		r.w.observed++
		r.txns[t.n] = t
		if !r.observe(t) {
			return
		}
		r.compareAll(fmt.Sprintf("after transaction %d", t.n))
		if r.aborted {
			return
		}
	}
}

func (r *c20Runner) send(txns []txn.SidetreeTxn) bool {
	select {
	case r.w.ledger.ch <- txns:
		return true
	case <-time.After(20 * time.Second):
		r.fail("pipeline-error/observer-stalled", "the observer did not take a notification within 20 s")
		r.aborted = true
		return false
	}
}

func (r *c20Runner) observe(t *c20Txn) bool {
	r.w.store.mutex.Lock()
	r.w.store.cur = t.n
	from := len(r.w.store.log)
	r.w.store.mutex.Unlock()
	st := t.sidetree()
	if !r.send([]txn.SidetreeTxn{st}) || !r.send(nil) {
		return false
	}
	r.w.store.mutex.RLock()
	stored := append([]c20Stored(nil), r.w.store.log[from:]...)
	r.w.store.mutex.RUnlock()
	if len(stored) == 0 {
		r.fail("pipeline-error/observer", "transaction %d (anchor %s, %d operation references, protocol version %d) yielded no stored operation",
			t.n, t.anchor, len(t.refs), t.version)
	}
	suffixes := map[string]bool{}
	kinds := map[byte]int{}
	for _, s := range stored {
		op := s.op
		if suffixes[op.UniqueSuffix] {
			r.fail("same-did-twice-in-one-batch", "transaction %d stores two operations of %s", t.n, op.UniqueSuffix)
		}
		suffixes[op.UniqueSuffix] = true
		in := r.byID[c20Identity(op.UniqueSuffix, op.Type, op.OperationRequest)]
		if in == nil {
			r.fail("unknown-operation-anchored", "transaction %d stores a %s operation of suffix %s that no client submitted", t.n, op.Type, op.UniqueSuffix)
			continue
		}
		kinds[in.kind]++
		in.anchoredIn = append(in.anchoredIn, t.n)
		if len(in.anchoredIn) > 1 {
			r.fail("operation-anchored-twice", "%s was anchored in transactions %v", in, in.anchoredIn)
		}
		if in.kind == 'c' {
			r.dids[in.did].createSeen = true
		}
		if op.ProtocolVersion != in.version {
			r.fail("stored-operation-stamp-differs/protocol-version", "%s was accepted under protocol version %d, stored with version %d (transaction %d written under %d)",
				in, in.version, op.ProtocolVersion, t.n, t.version)
		}
		if op.TransactionTime != st.TransactionTime || op.TransactionNumber != st.TransactionNumber {
			r.fail("stored-operation-stamp-differs/transaction-time-number", "%s: transaction %d.%d, stored %d.%d", in, st.TransactionTime,
				st.TransactionNumber, op.TransactionTime, op.TransactionNumber)
		}
		if op.CanonicalReference != st.CanonicalReference {
			r.fail("stored-operation-stamp-differs/canonical-reference", "%s: transaction %q, stored %q", in, st.CanonicalReference, op.CanonicalReference)
		}
		if !reflect.DeepEqual(op.EquivalentReferences, st.EquivalentReferences) {
			r.fail("stored-operation-stamp-differs/equivalent-references", "%s: transaction %v, stored %v", in, st.EquivalentReferences, op.EquivalentReferences)
		}
	}
	n := len(stored)
	r.out.recUpd = r.out.recUpd || (kinds['r'] > 0 && kinds['k']+kinds['s']+kinds['j'] > 0)
	r.out.deactOnly = r.out.deactOnly || (n > 0 && kinds['d'] == n)
	return true
}

// placed lists the DID's operations the resolver is entitled to see: the anchored ones at their transaction and, with
// an unpublished-operation store, the accepted ones that are still waiting.
func (r *c20Runner) placed(d *c20DID) (ops []c20Placed, createTxn *c20Txn) {
	for _, in := range d.intents {
		switch {
		case len(in.anchoredIn) > 0:
			ops = append(ops, c20Placed{in, in.anchoredIn[0]})
			if in.kind == 'c' {
				createTxn = r.txns[in.anchoredIn[0]]
			}
		case r.c.cfg.unpub:
			ops = append(ops, c20Placed{in, c20Unpub + in.acceptedAt})
		}
	}
	return ops, createTxn
}

func c20LastName(st c20State) string {
	if !st.exists {
		return "none"
	}
	return c20KindName[st.last]
}

func (r *c20Runner) compareAll(when string) {
	for _, d := range r.dids {
		if !d.created {
			continue
		}
		ops, createTxn := r.placed(d)
		txnOf := func(in *c20Intent) *c20Txn {
			if len(in.anchoredIn) == 0 {
				return nil
			}
			return r.txns[in.anchoredIn[0]]
		}
		st := c20Reference(ops, 0)
		exp := st.view(d.did, d.suffix, txnOf)
		var res *document.ResolutionResult
		var err error
		r.guard("resolve", func() { res, err = r.w.dh.ResolveDocument(d.did) })
		if r.aborted {
			return
		}
		got, doc := c20Observe(res, err, d.did)
		r.out.compared++
		what, detail := c20Diff(exp, got, true)
		if st1 := c20Reference(ops, 1); !reflect.DeepEqual(st1.view(d.did, d.suffix, txnOf), exp) {
			// the two readings of "last applied recover" disagree: either is accepted, the closer one is reported
			r.out.ambiguous = true
			if w1, d1 := c20Diff(st1.view(d.did, d.suffix, txnOf), got, true); len(w1) < len(what) {
				what, detail, st = w1, d1, st1
			}
		}
		for i, w := range what {
			applied := make([]string, len(st.applied))
			for j, in := range st.applied {
				applied[j] = in.String()
			}
			r.fail("resolved-differs-from-reference/"+c20LastName(st)+"/"+w, "DID %s %s (reference applied %v): %s", d.name, when, applied, detail[i])
		}
		// short-form resolution right after the create was anchored, while nothing else of the DID is visible
		if !d.shortChecked && createTxn != nil && len(ops) == 1 && doc != nil && d.respDoc != nil {
			d.shortChecked = true
			r.out.shortForm++
			if n := c20Normalise(doc, d.did); !reflect.DeepEqual(n, d.respDoc) {
				r.fail("create-response-differs/short-form-document", "DID %s: create response %s, short-form resolution after anchoring %s", d.name, c20Show(d.respDoc), c20Show(n))
			}
			if got.UC != d.respUC || got.RC != d.respRC {
				r.fail("create-response-differs/short-form-commitments", "DID %s: response %s / %s, after anchoring %s / %s", d.name, d.respUC, d.respRC, got.UC, got.RC)
			}
			if !got.Published {
				r.fail("create-response-differs/short-form-published", "DID %s: not marked published after its create was anchored and observed", d.name)
			}
		}
	}
}

func (r *c20Runner) finish() {
	if r.aborted {
		return
	}
	r.trace = append(r.trace, "[drain]")
	for i := 0; i < 2*r.accepted+3 && r.w.queue.Len() > 0 && !r.aborted; i++ {
		before := r.w.observed
		r.tick(true)
		if r.w.observed == before && r.w.queue.Len() > 0 && i > 1 {
			break // the time-out tick no longer anchors anything
		}
	}
	if r.aborted {
		return
	}
	if n := r.w.queue.Len(); n > 0 {
		r.fail("pipeline-error/queue-not-drained", "%d operations stay queued although the batch time-out keeps firing (the batch is refused again and again)", n)
	}
	for _, d := range r.dids {
		var order []int
		for _, in := range d.intents {
			if len(in.anchoredIn) == 0 {
				r.fail("accepted-operation-lost", "%s (%s) was accepted by ProcessOperation but never anchored and stored", in, c20KindName[in.kind])
				continue
			}
			order = append(order, in.anchoredIn[0])
		}
		if !sort.IntsAreSorted(order) {
			r.out.reordered = true
			var want []c20Placed
			for _, in := range d.intents {
				want = append(want, c20Placed{in, 1 + in.acceptedAt})
			}
			ops, _ := r.placed(d)
			if !reflect.DeepEqual(c20Reference(want, 0).view(d.did, d.suffix, nil), c20Reference(ops, 0).view(d.did, d.suffix, nil)) {
				r.out.superseded = true
			}
		}
	}
	// an operation that was anchored and stored must no longer be served as unpublished (it would be applied from both stores)
	if r.w.unpub != nil {
		r.w.unpub.mutex.RLock()
		for s, ops := range r.w.unpub.ops {
			for _, op := range ops {
				if in := r.byID[c20Identity(op.UniqueSuffix, op.Type, op.OperationRequest)]; in != nil && len(in.anchoredIn) > 0 {
					r.fail("anchored-operation-still-unpublished", "%s (suffix %s) was anchored in transaction %v and is still in the unpublished-operation store",
						in, s, in.anchoredIn)
				}
			}
		}
		r.w.unpub.mutex.RUnlock()
	}
}

func c20Run(c c20Case) (out c20Outcome) {
	r := &c20Runner{c: c, byID: map[string]*c20Intent{}, seen: map[string]bool{}, txns: map[int]*c20Txn{}}
	defer func() {
		if p := recover(); p != nil {
			r.fail("panic/harness", "%v", p)
		}
		r.out.trace = strings.Join(r.trace, " ")
		out = r.out
	}()
	w, err := c20NewWorld(c.cfg)
	if err != nil {
		r.fail("pipeline-error/setup", "%v", err)
		return
	}
	r.w = w
	defer w.close()
	for i, s := range c.seqs {
		r.dids = append(r.dids, &c20DID{idx: i, name: string(rune('A' + i)), seq: s})
	}
	pendingByDID := func() (max2 bool) {
		q, _ := w.queue.Peek(w.queue.Len())
		n, per := 0, map[string]int{}
		for _, o := range q {
			if per[o.UniqueSuffix]++; per[o.UniqueSuffix] > 1 {
				n++
			}
		}
		return n >= 2
	}
	for _, s := range c.steps {
		if r.aborted {
			break
		}
		switch s.kind {
		case 'S':
			if s.did < len(r.dids) {
				r.submit(s.did)
			}
		case 'T', 'M':
			r.out.deferred2 = r.out.deferred2 || (s.kind == 'T' && pendingByDID())
			r.trace = append(r.trace, string(s.kind))
			r.tick(s.kind == 'T')
		case 'V':
			r.switchVersion()
		}
	}
	r.finish()
	return
}

// ---------------------------------------------------------------- case generation

// c20Seqs: all per-DID sequences with at most maxLen operations: create, then updates (k, s, j) and recovers in any
// order, optionally closed by a deactivate.
func c20Seqs(maxLen int) []string {
	out := []string{}
	var rec func(s string)
	rec = func(s string) {
		out = append(out, s)
		if len(s) >= maxLen {
			return
		}
		out = append(out, s+"d")
		for _, k := range "ksjr" {
			rec(s + string(k))
		}
	}
	rec("c")
	sort.SliceStable(out, func(i, j int) bool { return len(out[i]) < len(out[j]) })
	return out
}

// c20Interleave draws a random interleaving of the DIDs' submissions and sprinkles ticks (and one version switch).
func c20Interleave(rnd *rand.Rand, seqs []string, pT, pM float64, withSwitch bool) []c20Step {
	var subs []c20Step
	left := make([]int, len(seqs))
	total := 0
	for i, s := range seqs {
		left[i] = len(s)
		total += len(s)
	}
	for total > 0 {
		x := rnd.Intn(total)
		for i := range left {
			if x < left[i] {
				subs = append(subs, c20Step{'S', i})
				left[i]--
				total--
				break
			}
			x -= left[i]
		}
	}
	sw := -1
	if withSwitch {
		sw = rnd.Intn(len(subs) + 1)
	}
	var steps []c20Step
	for i, s := range subs {
		if i == sw {
			steps = append(steps, c20Step{kind: 'V'})
		}
		steps = append(steps, s)
		switch p := rnd.Float64(); {
		case p < pT:
			steps = append(steps, c20Step{kind: 'T'})
		case p < pT+pM:
			steps = append(steps, c20Step{kind: 'M'})
		}
	}
	if sw == len(subs) {
		steps = append(steps, c20Step{kind: 'V'})
	}
	return steps
}

func c20RandomCfg(rnd *rand.Rand, versions int) c20Cfg {
	cfg := c20Cfg{maxOps: []uint{2, 3, 5, 8}[rnd.Intn(4)], unpub: rnd.Intn(2) == 0, versions: versions}
	if versions == 2 {
		cfg.maxOps = 2
	}
	return cfg
}

func c20Curated() []c20Case {
	p := c20ParseCase
	return []c20Case{
		// a recover and an update (different DIDs) in one batch, in both queue orders, with a create next to them
		p(5, false, 1, "cr ck", "A B T A B T"),
		p(5, false, 1, "cr cs", "A B T B A T"),
		p(8, false, 1, "cr cs cj", "A B C T A B C T"),
		p(8, true, 1, "crk cks c", "A B T A B C A B T T"),
		p(5, false, 1, "crr ckk", "A B T A B T A B T"),
		// batches of deactivate operations only, and deactivates next to other operations
		p(5, false, 1, "cd c", "A B T A T"),
		p(5, false, 1, "cd cd", "A B T A B T"),
		p(5, false, 1, "cd cd c", "A B T A T B C T"),
		p(2, true, 1, "cd", "A A T T"),
		p(5, false, 1, "ckd crd", "A B T A B T A B T"),
		// two or more operations deferred by one batch
		p(8, false, 1, "cks cks", "A B T A B A B T T"),
		p(8, true, 1, "ck ck", "A A B B T T"),
		p(8, true, 1, "cksj cksj", "A A A A B B B B T T T T"),
		p(8, true, 1, "ckr csr ckd", "A B C A B C A B C T T T"),
		p(8, false, 1, "ckkk csss cjjj", "A B C T A B C A B C A B C T T T"),
		// full batches cut by the monitor tick, operations of one DID overtaking each other in the queue
		p(2, false, 1, "c c c", "A M B M C M T"),
		p(2, true, 1, "cks", "A A A T T T"),
		p(2, true, 1, "cjrk", "A T A A A T T T T"),
		p(2, true, 1, "ckrs", "A A A A M M M T T"),
		p(3, true, 1, "ckr cs", "A A B A B M T T T"),
		p(2, true, 1, "crrk", "A T A A A T T T"),
		// protocol upgrade while operations accepted under the first version are still queued
		p(2, false, 2, "c c", "A V B T"),
		p(2, false, 2, "c c", "A V T B T"),
		p(2, true, 2, "ck c", "A A V B T T"),
		p(2, false, 2, "c c c", "A B C V T"),
		p(2, true, 2, "cks", "A A A V T T T"),
		p(2, false, 2, "cks", "A T A A V T T"),
		p(2, false, 2, "ckj", "A T A A V T T"),
		p(2, false, 2, "cjj c", "A T A A V B T T"),
		p(2, true, 2, "cr ck c", "A B T A B V C T T"),
		p(2, false, 2, "cd cd c", "A B T A B V C M T"),
		p(2, true, 2, "ckk css cjj", "A B C A B C V A B C T T T T"),
	}
}

// ---------------------------------------------------------------- driver

func c20TierAndSeed() (bool, int64) {
	seed, err := strconv.ParseInt(os.Getenv("VERIF_SEED"), 10, 64)
	if err != nil {
		seed = 1
	}
	return os.Getenv("VERIF_TIER") == "thorough", seed
}

func c20RunAll(c *c20Check, cases []c20Case) {
	t0 := time.Now()
	defer func() { c.seconds += time.Since(t0).Seconds() }()
	outs := make([]c20Outcome, len(cases))
	var wg sync.WaitGroup
	next := make(chan int)
	workers := runtime.GOMAXPROCS(0)
	if workers > 16 {
		workers = 16
	}
	for i := 0; i < workers; i++ {
		wg.Add(1)
		go func() {
			defer wg.Done()
			for j := range next {
				outs[j] = c20Run(cases[j])
			}
		}()
	}
	for j := range cases {
		next <- j
	}
	close(next)
	wg.Wait()
	if c.Coverage == nil {
		c.Coverage = map[string]int{}
	}
	cov := func(name string, hit bool, i int) {
		if hit {
			if c.Coverage[name]++; c.Coverage[name] == 1 {
				c.Samples = append(c.Samples, name+": "+cases[i].text()+" => "+outs[i].trace)
			}
		}
	}
	for i, o := range outs {
		c.Enumerated++
		if o.compared > 0 {
			c.Nontrivial++
		}
		c.Coverage["resolutions-compared"] += o.compared
		c.Coverage["create-response-vs-long-form"] += o.longForm
		c.Coverage["create-response-vs-short-form-after-anchoring"] += o.shortForm
		cov("batch-with-recover-and-update", o.recUpd, i)
		cov("batch-of-deactivates-only", o.deactOnly, i)
		cov("time-out-with-two-dids-holding-deferrable-operations", o.deferred2, i)
		cov("operations-of-both-versions-queued-together", o.mixedQueue, i)
		cov("did-anchored-in-another-order-than-accepted", o.reordered, i)
		cov("accepted-update-without-effect-because-of-anchoring-order", o.superseded, i)
		cov("two-readings-of-last-recover-differ", o.ambiguous, i)
		for _, f := range o.findings {
			c.fail(f.key, cases[i].text()+" => "+o.trace, f.detail)
		}
	}
	if len(cases) > 0 && len(c.Samples) < 12 {
		c.Samples = append(c.Samples, "first: "+cases[0].text()+" => "+outs[0].trace)
	}
}

func TestVerifBoundedC20(t *testing.T) {
	log.SetDefaultLevel(log.PANIC)
	for _, m := range []string{"sidetree-core-writer", "sidetree-core-cutter", "sidetree-core-observer", "sidetree-core-dochandler",
		"sidetree-core-processor", "sidetree-core-applier", "sidetree-core-parser", "sidetree-core-commitment", "sidetree-core-composer",
		"sidetree-core-txnhandler"} {
		log.SetLevel(m, log.PANIC)
	}
	thorough, seed := c20TierAndSeed()
	start := time.Now()
	// the batch files are gzip-compressed one by one (about 1 MB of short-lived memory per file): collect less often
	defer debug.SetGCPercent(debug.SetGCPercent(400))
	oneLen, pairLen, nPairExtra, nLong2, nThree, nVer, maxLen := 4, 3, 3, 800, 1000, 1800, 4
	if thorough {
		oneLen, pairLen, nPairExtra, nLong2, nThree, nVer, maxLen = 5, 3, 12, 8000, 10000, 14000, 5
	}
	rnd := rand.New(rand.NewSource(seed))
	var all []*c20Check
	newCheck := func(name string, exhaustive bool) *c20Check {
		c := &c20Check{Name: name, Rule: c20Rule, Exhaustive: exhaustive, Samples: []string{}, Failures: []c20Failure{}}
		all = append(all, c)
		return c
	}

	// 0. curated schedules
	cur := newCheck("c20/pipeline-vs-reference/curated", true)
	curated := c20Curated()
	c20RunAll(cur, curated)
	cur.Bound = fmt.Sprintf("%d hand-written schedules over 1-3 DIDs: recover+update in one batch, deactivate-only batches, several deferred operations, "+
		"full batches cut by the monitor tick, operations of one DID overtaking each other, protocol upgrade (second version: genesis %d, SHA2-512 preferred, "+
		"MaxOperationCount %d, no ietf-json-patch) while operations are queued", len(curated), c20V1Genesis, c20V1MaxOps)

	// 1. one DID, exhaustive
	one := newCheck("c20/pipeline-vs-reference/one-did", true)
	var cases []c20Case
	for _, s := range c20Seqs(oneLen) {
		for _, cfg := range []c20Cfg{{2, false, 1}, {2, true, 1}, {3, true, 1}} {
			gaps := len(s) - 1
			for mask := 0; mask < 1<<gaps; mask++ {
				if !cfg.unpub && gaps > 0 && mask&1 == 0 {
					continue // without unpublished store the harness ticks after the create anyway
				}
				c := c20Case{cfg: cfg, seqs: []string{s}}
				for i := range s {
					c.steps = append(c.steps, c20Step{'S', 0})
					if i < gaps && mask&(1<<i) != 0 {
						c.steps = append(c.steps, c20Step{kind: 'T'})
					}
				}
				cases = append(cases, c)
			}
		}
	}
	c20RunAll(one, cases)
	one.Bound = fmt.Sprintf("one DID, every sequence of 1..%d operations (create, then add-key / add-service / json-patch(alsoKnownAs) updates and recovers "+
		"in any order, optionally closed by a deactivate), every subset of the gaps between submissions as batch time-out points, then time-out ticks until the "+
		"queue is empty; configurations MaxOperationCount 2 without and with unpublished-operation store, MaxOperationCount 3 with store", oneLen)

	// 2. two DIDs
	two := newCheck("c20/pipeline-vs-reference/two-dids", false)
	cases = nil
	short := c20Seqs(pairLen)
	for _, a := range short {
		for _, b := range short {
			for k := 0; k < nPairExtra; k++ {
				seqs := []string{a, b}
				cases = append(cases, c20Case{cfg: c20RandomCfg(rnd, 1), seqs: seqs, steps: c20Interleave(rnd, seqs, 0.3, 0.15, false)})
			}
		}
	}
	long := c20Seqs(maxLen)
	for i := 0; i < nLong2; i++ {
		seqs := []string{long[rnd.Intn(len(long))], long[rnd.Intn(len(long))]}
		cases = append(cases, c20Case{cfg: c20RandomCfg(rnd, 1), seqs: seqs, steps: c20Interleave(rnd, seqs, 0.25, 0.15, false)})
	}
	c20RunAll(two, cases)
	two.Bound = fmt.Sprintf("two DIDs: every ordered pair of the %d sequences of 1..%d operations, %d random (interleaving, tick pattern, configuration) draws each, "+
		"plus %d random pairs of sequences of 1..%d operations (seed %d); after each submission a time-out tick with p=0.3/0.25, a monitor tick with p=0.15; "+
		"MaxOperationCount in {2,3,5,8}, with / without unpublished-operation store", len(short), pairLen, nPairExtra, nLong2, maxLen, seed)

	// 3. three DIDs
	three := newCheck("c20/pipeline-vs-reference/three-dids", false)
	cases = nil
	for i := 0; i < nThree; i++ {
		seqs := []string{long[rnd.Intn(len(long))], long[rnd.Intn(len(long))], long[rnd.Intn(len(long))]}
		cases = append(cases, c20Case{cfg: c20RandomCfg(rnd, 1), seqs: seqs, steps: c20Interleave(rnd, seqs, 0.2, 0.15, false)})
	}
	c20RunAll(three, cases)
	three.Bound = fmt.Sprintf("three DIDs: %d random triples of sequences of 1..%d operations with a random interleaving (seed %d), time-out tick p=0.2, monitor tick "+
		"p=0.15 after each submission, MaxOperationCount in {2,3,5,8}, with / without unpublished-operation store", nThree, maxLen, seed)

	// 4. two protocol versions
	ver := newCheck("c20/pipeline-vs-reference/two-versions", false)
	cases = nil
	for i := 0; i < nVer; i++ {
		n := 1 + rnd.Intn(3)
		seqs := make([]string, n)
		for j := range seqs {
			seqs[j] = long[rnd.Intn(len(long))]
		}
		cases = append(cases, c20Case{cfg: c20RandomCfg(rnd, 2), seqs: seqs, steps: c20Interleave(rnd, seqs, 0.2, 0.1, true)})
	}
	c20RunAll(ver, cases)
	ver.Bound = fmt.Sprintf("%d random workloads of 1-3 DIDs (sequences of 1..%d operations, seed %d) with one protocol upgrade at a random point of the submission "+
		"order: first version genesis 0 / SHA2-256 / MaxOperationCount 2, second version genesis %d / SHA2-512 preferred / MaxOperationCount %d / no ietf-json-patch "+
		"(a json-patch update due after the upgrade is sent as add-key update); DIDs created after the upgrade use SHA2-512; time-out tick p=0.2, monitor tick p=0.1",
		nVer, maxLen, seed, c20V1Genesis, c20V1MaxOps)

	c20WriteChecks(t, all)
	for _, c := range all {
		t.Logf("%s: %.1fs enumerated=%d nontrivial=%d failure-classes=%d coverage=%v", c.Name, c.seconds, c.Enumerated, c.Nontrivial, len(c.Counts), c.Coverage)
		for k, n := range c.Counts {
			t.Logf("   %s x%d", k, n)
		}
	}
	t.Logf("C20 bounded: %.1fs", time.Since(start).Seconds())
}

// c20WriteChecks append-merges the checks into $VERIF_BOUNDED_OUT.
func c20WriteChecks(t *testing.T, cs []*c20Check) {
	out := os.Getenv("VERIF_BOUNDED_OUT")
	if out == "" {
		return
	}
	file := struct {
		Checks []json.RawMessage `json:"checks"`
	}{}
	if b, err := os.ReadFile(out); err == nil && len(b) > 0 {
		if err := json.Unmarshal(b, &file); err != nil {
			t.Fatalf("harness: existing %s is not valid JSON: %v", out, err)
		}
	}
	for _, c := range cs {
		b, err := json.Marshal(c)
		if err != nil {
			t.Fatalf("harness: %v", err)
		}
		file.Checks = append(file.Checks, b)
	}
	b, err := json.MarshalIndent(file, "", " ")
	if err != nil {
		t.Fatalf("harness: %v", err)
	}
	if err := os.WriteFile(out, b, 0o644); err != nil {
		t.Fatalf("harness: %v", err)
	}
}
