package batch

import (
	"errors"
	"fmt"
	"testing"

	"github.com/trustbloc/logutil-go/pkg/log"

	"github.com/trustbloc/sidetree-core-go/pkg/api/operation"
	"github.com/trustbloc/sidetree-core-go/pkg/batch/cutter"
	"github.com/trustbloc/sidetree-core-go/pkg/batch/opqueue"
)

func demoRunner(t *testing.T, cfg c20Cfg, seqs ...string) *c20Runner {
	log.SetDefaultLevel(log.PANIC)
	c := c20Case{cfg: cfg, seqs: seqs}
	r := &c20Runner{c: c, byID: map[string]*c20Intent{}, seen: map[string]bool{}, txns: map[int]*c20Txn{}}
	w, err := c20NewWorld(cfg)
	if err != nil {
		t.Fatal(err)
	}
	r.w = w
	for i, s := range seqs {
		r.dids = append(r.dids, &c20DID{idx: i, name: string(rune('A' + i)), seq: s})
	}
	return r
}

// gap: long-form DID resolved after an update was anchored
func TestDemoLongFormAfterUpdate(t *testing.T) {
	r := demoRunner(t, c20Cfg{maxOps: 5}, "ck")
	defer r.w.close()
	r.submit(0)
	r.tick(true)
	r.submit(0)
	r.tick(true)
	d := r.dids[0]
	sres, serr := r.w.dh.ResolveDocument(d.did)
	lres, lerr := r.w.dh.ResolveDocument(d.long)
	sv, _ := c20Observe(sres, serr, d.did)
	lv, _ := c20Observe(lres, lerr, d.long)
	fmt.Printf("DEMO long-form: findings=%v\n short form: keys=%d published=%v uc=%s\n long  form: keys=%d published=%v uc=%s\n", r.out.findings, len(sv.Keys), sv.Published, sv.UC, len(lv.Keys), lv.Published, lv.UC)
	if len(sv.Keys) != len(lv.Keys) || sv.UC != lv.UC {
		fmt.Println("DEMO long-form: VIOLATION long-form resolution ignores the anchored update")
	}
}

// gap: batch larger than 10 operations
func TestDemoBigBatch(t *testing.T) {
	log.SetDefaultLevel(log.PANIC)
	c := c20Case{cfg: c20Cfg{maxOps: 20, versions: 1}}
	for i := 0; i < 12; i++ {
		c.seqs = append(c.seqs, "c")
		c.steps = append(c.steps, c20Step{'S', i})
	}
	c.steps = append(c.steps, c20Step{kind: 'T'})
	out := c20Run(c)
	fmt.Printf("DEMO big-batch: %d findings\n", len(out.findings))
	for _, f := range out.findings {
		fmt.Printf("DEMO big-batch: %s: %s\n", f.key, f.detail)
	}
}

// gap: transaction that cannot be stored still removes the operations from the unpublished-operation store
func TestDemoPutFailure(t *testing.T) {
	r := demoRunner(t, c20Cfg{maxOps: 5, unpub: true}, "c")
	defer r.w.close()
	r.submit(0)
	d := r.dids[0]
	_, err := r.w.dh.ResolveDocument(d.did)
	fmt.Printf("DEMO put-failure: before the transaction: resolve err=%v, unpublished entries=%d\n", err, len(r.w.unpub.ops[d.suffix]))
	r.w.store.failPuts = 1
	r.seen["pipeline-error/observer"] = true
	r.tick(true)
	_, err = r.w.dh.ResolveDocument(d.did)
	fmt.Printf("DEMO put-failure: after the failed transaction: stored=%d, unpublished entries=%d, resolve err=%v\n", len(r.w.store.log), len(r.w.unpub.ops[d.suffix]), err)
	if err != nil {
		fmt.Println("DEMO put-failure: VIOLATION the transaction stored nothing but the accepted create vanished from the unpublished-operation store")
	}
}

// gap: queue that refuses an operation but reports its length
type fullQueue struct {
	*opqueue.MemQueue
	limit uint
}

func (q *fullQueue) Add(op *operation.QueuedOperation, v uint64) (uint, error) {
	if n := q.MemQueue.Len(); n >= q.limit {
		return n, errors.New("queue is full")
	}
	return q.MemQueue.Add(op, v)
}

func TestDemoQueueFull(t *testing.T) {
	r := demoRunner(t, c20Cfg{maxOps: 5, unpub: true}, "c", "c")
	defer r.w.close()
	r.w.writer.batchCutter = cutter.New(r.w.pc, &fullQueue{r.w.queue, 1})
	r.submit(0)
	r.submit(1)
	fmt.Printf("DEMO queue-full: accepted=%d findings=%v queue length=%d unpublished(B)=%d\n", r.accepted, r.out.findings, r.w.queue.Len(), len(r.w.unpub.ops[r.dids[1].suffix]))
	r.finish()
	for _, f := range r.out.findings {
		fmt.Printf("DEMO queue-full: %s: %s\n", f.key, f.detail)
	}
}
