package processor

import (
	"crypto/ecdsa"
	"crypto/elliptic"
	"crypto/rand"
	"testing"

	"github.com/stretchr/testify/require"

	"github.com/trustbloc/sidetree-core-go/pkg/api/operation"
	"github.com/trustbloc/sidetree-core-go/pkg/commitment"
	"github.com/trustbloc/sidetree-core-go/pkg/internal/signutil"
	"github.com/trustbloc/sidetree-core-go/pkg/mocks"
	"github.com/trustbloc/sidetree-core-go/pkg/util/ecsigner"
	"github.com/trustbloc/sidetree-core-go/pkg/util/pubkey"
	"github.com/trustbloc/sidetree-core-go/pkg/versions/1_0/model"
)

// a deactivate signed for the window [2000, 3000] is anchored too early (t=1000, ignored) and anchored again at t=2500
func TestDemoReanchoredDeactivate(t *testing.T) {
	recoveryKey, _ := ecdsa.GenerateKey(elliptic.P256(), rand.Reader)
	updateKey, _ := ecdsa.GenerateKey(elliptic.P256(), rand.Reader)
	pc := newMockProtocolClient()
	store, uniqueSuffix := getDefaultStore(recoveryKey, updateKey)

	recoverPubKey, err := pubkey.GetPublicKeyJWK(&recoveryKey.PublicKey)
	require.NoError(t, err)
	sd := model.DeactivateSignedDataModel{DidSuffix: uniqueSuffix, RecoveryKey: recoverPubKey, AnchorFrom: 2000, AnchorUntil: 3000}
	jws, err := signutil.SignModel(sd, ecsigner.New(recoveryKey, "ES256", ""))
	require.NoError(t, err)
	rv, err := commitment.GetRevealValue(recoverPubKey, sha2_256)
	require.NoError(t, err)
	op := &model.Operation{Namespace: mocks.DefaultNS, ID: "did:sidetree:" + uniqueSuffix, UniqueSuffix: uniqueSuffix,
		Type: operation.TypeDeactivate, SignedData: jws, RevealValue: rv}

	early := getAnchoredOperation(op, 1000)
	early.CanonicalReference = "early"
	require.NoError(t, store.Put(early))

	r, err := New("test", store, pc).Resolve(uniqueSuffix)
	require.NoError(t, err)
	t.Logf("DEMO only the early anchoring (t=1000, window [2000,3000]): deactivated=%v", r.Deactivated)

	again := getAnchoredOperation(op, 2500)
	again.CanonicalReference = "again"
	require.Equal(t, early.OperationRequest, again.OperationRequest)
	require.NoError(t, store.Put(again))

	r, err = New("test", store, pc).Resolve(uniqueSuffix)
	require.NoError(t, err)
	t.Logf("DEMO same request anchored again at t=2500 (inside the window): deactivated=%v recovery=%q", r.Deactivated, r.RecoveryCommitment)
}
