package processor

import (
	"crypto/ecdsa"
	"crypto/elliptic"
	"crypto/rand"
	"testing"

	"github.com/stretchr/testify/require"

	"github.com/trustbloc/sidetree-core-go/pkg/api/operation"
	"github.com/trustbloc/sidetree-core-go/pkg/mocks"
	"github.com/trustbloc/sidetree-core-go/pkg/util/ecsigner"
	"github.com/trustbloc/sidetree-core-go/pkg/util/pubkey"
	"github.com/trustbloc/sidetree-core-go/pkg/versions/1_0/model"
)

// gap C: a create whose update commitment equals its recovery commitment (one key for both)
func TestDemoCreateOneKey(t *testing.T) {
	key, _ := ecdsa.GenerateKey(elliptic.P256(), rand.Reader)
	pc := newMockProtocolClient()
	store, uniqueSuffix := getDefaultStore(key, key)
	r, err := New("test", store, pc).Resolve(uniqueSuffix)
	if err != nil {
		t.Logf("DEMO-C create(update commitment == recovery commitment): Resolve error: %v", err)
		return
	}
	t.Logf("DEMO-C create(update commitment == recovery commitment): resolved, same commitments=%v, doc members=%d",
		r.UpdateCommitment == r.RecoveryCommitment && r.UpdateCommitment != "", len(r.Doc))
}

// gap Q: a recover whose delta commits the update chain to the same key as its new recovery commitment
func TestDemoRecoverOneKey(t *testing.T) {
	recoveryKey, _ := ecdsa.GenerateKey(elliptic.P256(), rand.Reader)
	updateKey, _ := ecdsa.GenerateKey(elliptic.P256(), rand.Reader)
	pc := newMockProtocolClient()
	store, uniqueSuffix := getDefaultStore(recoveryKey, updateKey)

	p := getProtocol(1)
	nextKey, nextCommitment, err := generateKeyAndCommitment(p)
	require.NoError(t, err)
	delta, err := getDeltaModel(`{"publicKey":[{"id":"recovered","type":"JsonWebKey2020","purposes":["authentication"],"publicKeyJwk":{"kty":"EC","crv":"P-256K","x":"PUymIqdtF_qxaAqPABSw-C-owT1KYYQbsMKFM-L9fJA","y":"nM84jDHCMOTGTh_ZdHq4dBBdo4Z5PkEOW9jA8z8IsGc"}}]}`, nextCommitment)
	require.NoError(t, err)
	recoveryPubKey, err := pubkey.GetPublicKeyJWK(&recoveryKey.PublicKey)
	require.NoError(t, err)
	sd := &model.RecoverSignedDataModel{RecoveryKey: recoveryPubKey, RecoveryCommitment: nextCommitment}
	req, err := getRecoverRequest(ecsigner.New(recoveryKey, "ES256", ""), delta, sd, 1)
	require.NoError(t, err)
	op := &model.Operation{Namespace: mocks.DefaultNS, UniqueSuffix: uniqueSuffix, Type: operation.TypeRecover,
		OperationRequest: []byte(req.Operation), Delta: req.Delta, SignedData: req.SignedData, RevealValue: req.RevealValue}
	anchored := getAnchoredOperation(op, 1)
	require.NoError(t, store.Put(anchored))

	r, err := New("test", store, pc).Resolve(uniqueSuffix)
	require.NoError(t, err)
	t.Logf("DEMO-Q after recover: recovery commitment is the new one=%v update commitment is the new one=%v (update commitment %q) doc members=%d",
		r.RecoveryCommitment == nextCommitment, r.UpdateCommitment == nextCommitment, r.UpdateCommitment, len(r.Doc))

	// the owner's next update, signed with the new key
	upd, _, err := getAnchoredUpdateOperation(nextKey, uniqueSuffix, 2)
	require.NoError(t, err)
	upd.CanonicalReference = "upd"
	require.NoError(t, store.Put(upd))
	r, err = New("test", store, pc).Resolve(uniqueSuffix)
	require.NoError(t, err)
	t.Logf("DEMO-Q after the owner's next update (reveals the new key): last applied operation anchored at %d (2 = update applied)", r.LastOperationTransactionTime)
}
