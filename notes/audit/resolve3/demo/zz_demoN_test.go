package processor

import (
	"crypto/ecdsa"
	"crypto/elliptic"
	"crypto/rand"
	"testing"

	"github.com/stretchr/testify/require"

	"github.com/trustbloc/sidetree-core-go/pkg/api/operation"
	"github.com/trustbloc/sidetree-core-go/pkg/canonicalizer"
	"github.com/trustbloc/sidetree-core-go/pkg/commitment"
	"github.com/trustbloc/sidetree-core-go/pkg/document"
	"github.com/trustbloc/sidetree-core-go/pkg/hashing"
	"github.com/trustbloc/sidetree-core-go/pkg/internal/signutil"
	"github.com/trustbloc/sidetree-core-go/pkg/mocks"
	"github.com/trustbloc/sidetree-core-go/pkg/patch"
	"github.com/trustbloc/sidetree-core-go/pkg/util/ecsigner"
	"github.com/trustbloc/sidetree-core-go/pkg/util/pubkey"
	"github.com/trustbloc/sidetree-core-go/pkg/versions/1_0/model"
)

// protocol with MaxOperationTimeDelta = 0 (newMockProtocolClient leaves it unset); update signs anchorFrom=1000 only
func TestDemoDeltaZero(t *testing.T) {
	recoveryKey, _ := ecdsa.GenerateKey(elliptic.P256(), rand.Reader)
	updateKey, _ := ecdsa.GenerateKey(elliptic.P256(), rand.Reader)
	pc := newMockProtocolClient()
	require.Equal(t, uint64(0), getProtocol(1000).MaxOperationTimeDelta)
	for _, at := range []uint64{1000, 1500} {
		store, uniqueSuffix := getDefaultStore(recoveryKey, updateKey)
		patchBytes, _ := canonicalizer.MarshalCanonical([]map[string]interface{}{{"op": "replace", "path": "/test", "value": "changed"}})
		jsonPatch, err := patch.NewJSONPatch(string(patchBytes))
		require.NoError(t, err)
		_, updateCommitment, _ := generateKeyAndCommitment(getProtocol(1))
		delta := &model.DeltaModel{UpdateCommitment: updateCommitment, Patches: []patch.Patch{jsonPatch}}
		deltaHash, _ := hashing.CalculateModelMultihash(delta, sha2_256)
		updatePubKey, _ := pubkey.GetPublicKeyJWK(&updateKey.PublicKey)
		signedData := &model.UpdateSignedDataModel{DeltaHash: deltaHash, UpdateKey: updatePubKey, AnchorFrom: 1000}
		jws, err := signutil.SignModel(signedData, ecsigner.New(updateKey, "ES256", ""))
		require.NoError(t, err)
		rv, _ := commitment.GetRevealValue(updatePubKey, sha2_256)
		updateOp := &model.Operation{Namespace: mocks.DefaultNS, ID: "did:sidetree:" + uniqueSuffix, UniqueSuffix: uniqueSuffix,
			Delta: delta, Type: operation.TypeUpdate, SignedData: jws, RevealValue: rv}
		anchored := getAnchoredOperation(updateOp, at)
		anchored.CanonicalReference = "upd"
		require.NoError(t, store.Put(anchored))
		r, err := New("test", store, pc).Resolve(uniqueSuffix)
		require.NoError(t, err)
		t.Logf("DEMO-N MaxOperationTimeDelta=0, update anchorFrom=1000 (effective window [1000,1000]) anchored at %d: commitment advanced=%v test=%v",
			at, r.UpdateCommitment == updateCommitment, document.DidDocumentFromJSONLDObject(r.Doc)["test"])
	}
}
