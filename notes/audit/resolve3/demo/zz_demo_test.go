package processor

import (
	"crypto/ecdsa"
	"crypto/elliptic"
	"crypto/rand"
	"testing"

	"github.com/stretchr/testify/require"

	"github.com/trustbloc/sidetree-core-go/pkg/api/operation"
	"github.com/trustbloc/sidetree-core-go/pkg/document"
	"github.com/trustbloc/sidetree-core-go/pkg/mocks"
)

// forked updates + version id
func TestDemoForkVersion(t *testing.T) {
	recoveryKey, _ := ecdsa.GenerateKey(elliptic.P256(), rand.Reader)
	updateKey, _ := ecdsa.GenerateKey(elliptic.P256(), rand.Reader)
	pc := newMockProtocolClient()
	store, uniqueSuffix := getDefaultStore(recoveryKey, updateKey)
	createOps, _ := store.Get(uniqueSuffix)

	var us []*operation.AnchoredOperation
	for i := uint64(2); i <= 4; i++ {
		u, _, err := getAnchoredUpdateOperation(updateKey, uniqueSuffix, i) // all three reveal the same key K
		require.NoError(t, err)
		u.CanonicalReference = "v" + string(rune('0'+i))
		us = append(us, u)
		require.NoError(t, store.Put(u))
	}

	p := New("test", store, pc)
	for _, v := range []string{"v2", "v3", "v4"} {
		r, err := p.Resolve(uniqueSuffix, document.WithVersionID(v))
		require.NoError(t, err)
		t.Logf("DEMO versionId=%s -> test=%v versionId(result)=%s", v, document.DidDocumentFromJSONLDObject(r.Doc)["test"], r.VersionID)
	}
	r, err := p.Resolve(uniqueSuffix, document.WithVersionTime("1970-01-01T00:00:03Z"))
	require.NoError(t, err)
	t.Logf("DEMO versionTime=3 -> test=%v", document.DidDocumentFromJSONLDObject(r.Doc)["test"])

	// truncated history: create, v2, v3 only
	ts := mocks.NewMockOperationStore(nil)
	require.NoError(t, ts.Put(createOps[0]))
	require.NoError(t, ts.Put(us[0]))
	require.NoError(t, ts.Put(us[1]))
	r, err = New("test", ts, pc).Resolve(uniqueSuffix)
	require.NoError(t, err)
	t.Logf("DEMO truncated history {create,v2,v3} -> test=%v", document.DidDocumentFromJSONLDObject(r.Doc)["test"])
}
