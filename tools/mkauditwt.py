#!/usr/bin/env python3
"""tools/mkauditwt.py <name> <props> <contract-dir> [...]: scratch worktree /tmp/audit-<name> (WITH the contract files) and a task
for a helper sub-agent that looks for behaviour changes the contracts and checks do NOT notice (contract weaknesses).
These are my own adversarial mutants (selftest/), not independently seeded changes."""
import os, subprocess, sys, json
name, props, dirs = sys.argv[1], sys.argv[2].split(","), sys.argv[3:]
wt = f"/tmp/audit-{name}"
V = os.path.dirname(os.path.dirname(os.path.abspath(__file__)))
subprocess.run(["git", "-C", "/repo", "worktree", "add", "--detach", wt, "HEAD"], check=True, stdout=subprocess.DEVNULL)
os.makedirs(wt + "/_out", exist_ok=True)
ptxt = []
for l in open(f"{V}/properties.jsonl"):
    p = json.loads(l)
    if p["id"] in props:
        ptxt.append(f"### {p['id']}: {p['title']}\n{p['statement']}\n")
task = f"""You are auditing machine-checked contracts for weaknesses. The Go library in the git worktree {wt} (a scratch copy of
trustbloc/sidetree-core-go) carries formal contracts in comment-only files named `zz_contracts_verif.go` (lines starting
with `//@`: requires / ensures / loop invariants / ghost state) next to the code they specify. A verifier generates proof
obligations from the real code and these contracts; a bounded test harness complements it. You can run the complete check of
a property against your modified worktree with

    cd /verif && VERIF_REPO={wt} VERIF_OUT={wt}/_out/out VERIF_EVIDENCE_DIR={wt}/_out/ev VERIF_NO_SELFTEST=1 ./bin/check <Cxx> quick

(10-60 s; prints `VIOLATION ...` lines and exits 1 when it notices a problem, exits 0 when it notices nothing). Do NOT
modify anything under /verif or /repo; edit only non-test, non-contract .go files inside {wt}.
Environment for every shell call: `export GOFLAGS=-mod=mod GOPROXY=off GOSUMDB=off GOTOOLCHAIN=local`.
Tests: `cd {wt} && go test -vet=off -count=1 -tags testing ./pkg/<package>/...`.

## Properties the contracts are meant to pin down
{chr(10).join(ptxt)}

## Contract files to audit (read them together with the code they annotate)
{chr(10).join('- ' + d + '/zz_contracts_verif.go' for d in dirs)}

## Task
Find behaviour changes of the non-test source code that VIOLATE one of the properties above but that the checks do NOT
notice. Work like this: read a contract, ask what it leaves unconstrained (a postcondition silent about a field, an
error path, an ordering, a boundary value, a frame condition, a case the loop invariant does not cover, a helper that is
`trusted`), write the smallest code change that exploits the gap (it must still compile and the package's tests must
still pass), and run the check of the affected properties (listed above; run every one whose statement your change
violates). Keep a change only if ALL those checks exit 0 (nothing noticed). Try at least 8 different ideas across
different functions; report at most 5 undetected ones.

For each undetected change i: restore the worktree (`git checkout -- .`), re-apply only that change, save
`git diff > _out/gap<i>.diff`, and write `_out/gap<i>.txt` with: the property violated, a concrete input / scenario showing
the violation, which checks you ran (with exit codes), and which contract clause is too weak and how you would
strengthen it. Also write `_out/tried.txt`: one line per idea you tried that WAS detected (so it is known to be covered).
Leave the worktree clean at the end. In your final answer summarise the gaps found (or say that every attempt was caught).
"""
open(wt + "/_out/TASK.md", "w").write(task)
open(f"{V}/notes/audit-prompts/{name}.md", "w").write(task)
print(f"Read {wt}/_out/TASK.md and carry out the task it describes.")
