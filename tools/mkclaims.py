#!/usr/bin/env python3
"""tools/mkclaims.py Cxx [--show]: (re)generate claims/Cxx.txt = every obligation of the property's functions
and lemmas that is discharged on the current tree (run only on a tree believed to satisfy the property,
after triage of every failing obligation). Obligations that are not discharged are printed, never claimed."""
import json, os, subprocess, sys
V = os.path.dirname(os.path.dirname(os.path.abspath(__file__)))
pid = sys.argv[1]
cfg = json.load(open(f"{V}/props/{pid}.json"))
out = f"{V}/out/{pid}"
os.makedirs(out + "/smt", exist_ok=True)
cmd = [f"{V}/bin/govc", "-repo", "/repo", "-spec", f"{V}/govc/spec", "-funcs", ",".join(cfg.get("functions", [])),
       "-out", out + "/smt", "-json", out + "/claims_run.json", "-timeout", "10", "-j", "14",
       "-locals-out", f"{V}/claims/{pid}.locals.json"]
if cfg.get("lemmas"):
    cmd += ["-lemmas", ",".join(cfg["lemmas"])]
env = dict(os.environ, GOFLAGS="-mod=mod", GOPROXY="off", GOSUMDB="off", GOTOOLCHAIN="local")
r = subprocess.run(cmd, env=env, stdout=subprocess.PIPE, stderr=subprocess.STDOUT, text=True)
print(r.stdout[-3000:])
res = json.load(open(out + "/claims_run.json"))
# second run: an obligation is claimed only if it discharges quickly in both runs (slow queries are the unstable ones)
r2 = subprocess.run(cmd, env=env, stdout=subprocess.PIPE, stderr=subprocess.STDOUT, text=True)
res2 = json.load(open(out + "/claims_run.json"))
second = {o["name"]: o for o in res2["obligations"]}
excl = set(cfg.get("exclude_claims", []))
claims, slow = [], []
for o in res["obligations"]:
    if o["status"] == "discharged":
        tmax = max(s["result"]["time_s"] for s in o["sites"])
        o2 = second.get(o["name"])
        if o2 is None or o2["status"] != "discharged":
            slow.append((o["name"], "unstable"))
            continue
        tmax = max(tmax, max(s["result"]["time_s"] for s in o2["sites"]))
        if tmax > 8.0:  # (a claimed obligation that times out at check time is retried with 60 s before anything is reported)
            slow.append((o["name"], tmax))
            continue
        if any(o["name"].endswith(e) or e in o["name"] for e in excl):
            continue
        # safety-only functions: claim only what the config asks for
        claims.append(o["name"])
    elif any(o["name"] == m or o["name"].endswith(m) for m in cfg.get("must_claim", [])):
        claims.append(o["name"])
        print("MUST-CLAIM but not discharged:", o["name"], o["status"])
if "--show" in sys.argv:
    print("\n".join(claims))
else:
    with open(f"{V}/claims/{pid}.txt", "w") as f:
        f.write("# claimed obligations of %s: each must be generated from the current tree and discharged on every run\n" % pid)
        f.write("\n".join(sorted(claims)) + "\n")
if "--show" not in sys.argv:
    # the universe: every obligation name generated today (claimed or not). At check time an obligation outside it is NEW
    # code (a new panic site, heap write, call site, inlined helper) and must discharge, see bin/check.
    with open(f"{V}/claims/{pid}.universe.txt", "w") as f:
        f.write("# every obligation generated for %s when its claimed set was recorded\n" % pid)
        f.write("\n".join(sorted({o["name"] for o in res["obligations"]} | {o["name"] for o in res2["obligations"]})) + "\n")
print("claimed", len(claims), "slow (not claimed):", slow)
for f in res["funcs"]:
    if f.get("error") or f["vacuity"] == "requires-unsat" or f.get("canary") == "all-returns-unreachable":
        print("!!", f["key"], f.get("error"), f["vacuity"], f.get("canary"))
