#!/usr/bin/env python3
"""Regenerates MANIFEST.json from props/*.json and tools/not_applicable.json."""
import json, os, glob
V = os.path.dirname(os.path.dirname(os.path.abspath(__file__)))
props = {}
for l in open(f"{V}/properties.jsonl"):
    p = json.loads(l)
    props[p["id"]] = p
checks, served = [], []
for f in sorted(glob.glob(f"{V}/props/C*.json")):
    c = json.load(open(f))
    pid = c["id"]
    if c.get("disabled"):
        continue
    served.append(pid)
    checks.append({
        "property_id": pid,
        "quick_cmd": f"bin/check {pid} --tier quick",
        "thorough_cmd": f"bin/check {pid} --tier thorough",
        "evidence_file": f"/verif/evidence/{pid}.json",
        "replay_cmd_template": "bin/check --replay {path}",
        "engine": "govc",
        "level_claimed": {"category": c.get("level", "proof"), "text": c.get("level_text", ""), "design_ref": c.get("design_ref", "")},
        "level_note": c.get("level_note", ""),
        "technique": c.get("technique", "contract-based deductive verification (VCs from go/ssa, SMT)"),
    })
na = json.load(open(f"{V}/tools/not_applicable.json")) if os.path.exists(f"{V}/tools/not_applicable.json") else {}
not_app = []
for pid in sorted(props):
    if pid not in served:
        not_app.append({"property_id": pid, "reason": na.get(pid, "no check registered yet for this property (framework under construction; see DESIGN.md §5)")})
hooks_commits = []
hc = f"{V}/tools/hook_commits.txt"
if os.path.exists(hc):
    hooks_commits = [l.strip() for l in open(hc) if l.strip()]
m = {
    "version": 1,
    "setup_cmd": "bin/setup",
    "hooks": {
        "guard": "verif",
        "enable": "go build tag: -tags verif (comment-only contract files zz_contracts_verif.go; govc loads /repo with this tag)",
        "baseline_off_cmd": "cd /repo && GOFLAGS=-mod=mod GOPROXY=off GOSUMDB=off GOTOOLCHAIN=local go test -vet=off -count=1 -timeout 25m ./...",
        "source_commits": hooks_commits,
        "add_only": True,
    },
    "engines": [
        {"name": "govc", "path": "govc/", "serves_properties": served,
         "kind_free_text": "verification-condition generator over go/ssa of the real code with //@ contracts; obligations discharged by z3 5.1 / cvc5 1.0 / z3 4.8 (raced)"},
        {"name": "bounded", "path": "bounded/", "serves_properties": [p for p in served if os.path.exists(f"{V}/bounded/{p}/targets.json")],
         "kind_free_text": "bounded stand-ins (exhaustive enumeration up to stated bounds against executable postconditions), labelled bounded, never counted as proved"},
        {"name": "lemmas", "path": "lemmas/", "serves_properties": [], "kind_free_text": "Lean 4 + Mathlib bridging lemmas about lists (pure mathematics, independent of the code)"},
    ],
    "checks": checks,
    "notes": "See DESIGN.md. A check exits 0 (held), 1 (VIOLATION lines) or 2 (machinery broken).",
    "not_applicable": not_app,
}
json.dump(m, open(f"{V}/MANIFEST.json", "w"), indent=1)
print("checks:", served, "not_applicable:", [n["property_id"] for n in not_app])
