#!/usr/bin/env python3
"""tools/mkmutant.py <name> <property> <kind> <file-relative-to-repo> <old> <new> [expect...]
Creates selftest/<name>/ from a single textual replacement (first occurrence) in a scratch copy."""
import sys, os, subprocess, json, tempfile, shutil
V = os.path.dirname(os.path.dirname(os.path.abspath(__file__)))
name, prop, kind, rel, old, new = sys.argv[1:7]
expect = sys.argv[7:]
tmp = tempfile.mkdtemp(prefix="verif-mm-", dir="/var/tmp")
try:
    a, b = tmp + "/a", tmp + "/b"
    for d in (a, b):
        os.makedirs(os.path.dirname(d + "/" + rel), exist_ok=True)
        shutil.copy("/repo/" + rel, d + "/" + rel)
    s = open(b + "/" + rel).read()
    assert old in s, "pattern not found"
    open(b + "/" + rel, "w").write(s.replace(old, new, 1))
    r = subprocess.run(["diff", "-u", "a/" + rel, "b/" + rel], cwd=tmp, stdout=subprocess.PIPE, text=True)
    d = f"{V}/selftest/{name}"
    os.makedirs(d, exist_ok=True)
    open(d + "/patch.diff", "w").write(r.stdout)
    json.dump({"property": prop.split(","), "kind": kind, "expect": expect}, open(d + "/meta.json", "w"), indent=1)
    print("created", d)
finally:
    shutil.rmtree(tmp)
