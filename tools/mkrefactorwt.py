#!/usr/bin/env python3
"""tools/mkrefactorwt.py <name> <file> [<file> ...]: scratch worktree /tmp/refac-<name> and task text for a sub-agent that
produces behaviour-preserving refactorings of the given files (to test that the checks do not raise false alarms)."""
import os, subprocess, sys
name, files = sys.argv[1], sys.argv[2:]
wt = f"/tmp/refac-{name}"
V = os.path.dirname(os.path.dirname(os.path.abspath(__file__)))
subprocess.run(["git", "-C", "/repo", "worktree", "add", "--detach", wt, "HEAD"], check=True, stdout=subprocess.DEVNULL)
subprocess.run("find . -name zz_contracts_verif.go -delete && git add -A && git -c user.name=x -c user.email=x@x commit -qm base", shell=True, cwd=wt, check=True)
os.makedirs(wt + "/_out", exist_ok=True)
task = f"""You are doing routine maintenance on a Go library. Work ONLY inside the git worktree {wt} (a scratch copy of
trustbloc/sidetree-core-go). Do not look at or touch /repo, /verif or any directory outside {wt}.

Environment for every shell call: `export GOFLAGS=-mod=mod GOPROXY=off GOSUMDB=off GOTOOLCHAIN=local` (no network).
Test suite: `cd {wt} && go test -vet=off -count=1 -tags testing ./...` (1-2 minutes).

## Task
Produce FOUR independent, strictly behaviour-preserving refactorings of non-test code in these files:
{chr(10).join('- ' + f for f in files)}

Each refactoring is the kind of edit a maintainer makes without intending any change of behaviour, for example: renaming
local variables or unexported helper functions; extracting a block into a new unexported helper function (or inlining a
small helper into its only caller); reordering statements that do not depend on each other; turning an index loop into a
range loop or the reverse; replacing if/else by early return; introducing or removing an intermediate variable; merging
two consecutive conditions; replacing `var x []T` + appends by an equivalent construction; changing a switch into if
chains. Make them of DIFFERENT kinds and in DIFFERENT functions, each touching 5-40 lines. Prefer the functions that do
the real work in these files (not getters). The exported API, every returned value, every error condition (nil-ness and
ordering of error checks as observable by callers), every side effect and its order must stay EXACTLY the same for all
inputs - be careful: if you are not sure an edit preserves behaviour for all inputs, choose another edit.
Do not touch test files, comments only changes are not enough, and do not change log messages or error texts.

For each refactoring i = 1..4: start from the worktree HEAD (`git checkout -- .`), make the edit, run `go build ./...`
and the test suite (must pass), then save `git diff > _out/patch<i>.diff` and write one line describing it to
`_out/desc<i>.txt`. Each patch must apply on its own to HEAD (they are alternatives, not a series).
Leave the worktree clean at the end (`git checkout -- .`). In your final answer list the four refactorings in one line each.
"""
open(wt + "/_out/TASK.md", "w").write(task)
print(f"Read {wt}/_out/TASK.md and carry out the task it describes, working only inside {wt}.")
