#!/usr/bin/env python3
"""tools/mkseedreadme.py: regenerate seeded/README.md (which check catches which independently seeded change) from
seeded/*/meta.json as written by tools/seedeval.py, plus the hand-written notes in seeded/notes.json."""
import json, glob, os
V = os.path.dirname(os.path.dirname(os.path.abspath(__file__)))
notes = json.load(open(f"{V}/seeded/notes.json")) if os.path.exists(f"{V}/seeded/notes.json") else {}
rows = []
for d in sorted(glob.glob(f"{V}/seeded/*/meta.json")):
    m = json.load(open(d))
    sid = os.path.basename(os.path.dirname(d))
    own = m.get("checks", {}).get(m["property"], {})
    names = []
    for v in own.get("violations", []):
        if "obligation=" in v:
            n = "deductive: " + v.split("obligation=")[1].split(" ")[0]
            if "no-failing-input-found" not in v:
                n += " (replay confirmed)"
        elif "key=" in v:
            n = "bounded: " + v.split("key=")[1].strip()
        else:
            n = v[:80]
        if n not in names:
            names.append(n)
    what = (m.get("breaks") or m.get("summary") or "").replace("\n", " ").replace("|", "/")
    needs = (m.get("needs_to_manifest") or m.get("needs") or "").replace("\n", " ").replace("|", "/")
    rows.append((sid, m["property"], what[:300], needs[:260], m.get("detected_by") or [], names[:4], len(names), notes.get(sid, "")))
with open(f"{V}/seeded/README.md", "w") as f:
    f.write("# Independently seeded property-breaking changes\n\n"
            "Each change was produced by a fresh sub-agent that was given only the text of one property and a scratch git worktree of\n"
            "/repo without the contract files (nothing from /verif). A change is kept only after `tools/seedeval.py` confirmed in a\n"
            "scratch copy that it applies and builds, that its demonstration test fails with it and passes without it, and that the\n"
            "existing suite still passes with it; the property's quick check (and in the `--all` runs every check) was then run against\n"
            "the patched copy. None of these changes is ever committed to /repo. `<id>/patch.diff` is the change, `<id>/demo_test.go.txt`\n"
            "the demonstration, `<id>/meta.json` the full record (what was run, every VIOLATION line).\n\n"
            "Regenerate with `tools/mkseedreadme.py`; re-evaluate with `tools/seedeval.py seeded_inbox/<id> <id> [--all]`.\n\n")
    det = sum(1 for r in rows if r[1] in r[4])
    f.write(f"{len(rows)} seeded changes; {det} are reported by their own property's check on the current machinery.\n\n")
    f.write("| seed | property | what the change does | what it needs to manifest | caught by checks | obligations / bounded keys of the own property's check (first 4 of n) | note |\n|---|---|---|---|---|---|---|\n")
    for sid, prop, what, needs, by, names, n, note in rows:
        f.write(f"| {sid} | {prop} | {what} | {needs} | {', '.join(by) if by else '**none**'} | {'; '.join(names)}{' (n=%d)' % n if n > 4 else ''} | {note} |\n")
print("seeded/README.md:", len(rows), "rows")
