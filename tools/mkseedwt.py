#!/usr/bin/env python3
"""tools/mkseedwt.py <Cxx> <n> [hint...]: create the scratch worktree /tmp/seed-Cxx-n for a seeding sub-agent.
The worktree is /repo's HEAD without the verification contract files; it gets _seed/TASK.md holding ONLY the
property text and the task (nothing from /verif). Prints the prompt to give to the agent."""
import json, os, subprocess, sys
pid, n = sys.argv[1], sys.argv[2]
hint = " ".join(sys.argv[3:])
sid = f"{pid}-{n}"
wt = f"/tmp/seed-{sid}"
V = os.path.dirname(os.path.dirname(os.path.abspath(__file__)))
prop = None
for l in open(f"{V}/properties.jsonl"):
    p = json.loads(l)
    if p["id"] == pid:
        prop = p
subprocess.run(["git", "-C", "/repo", "worktree", "add", "--detach", wt, "HEAD"], check=True, stdout=subprocess.DEVNULL)
subprocess.run("find . -name zz_contracts_verif.go -delete && git add -A && git -c user.name=x -c user.email=x@x commit -qm base", shell=True, cwd=wt, check=True)
os.makedirs(wt + "/_seed", exist_ok=True)
fields = "\n".join(f"{k}: {json.dumps(v) if not isinstance(v, str) else v}" for k, v in prop.items() if k not in ("id", "added_in_round", "source"))
task = f"""You are testing how robust a Go library is against subtle regressions. Work ONLY inside the git worktree {wt}
(a scratch copy of trustbloc/sidetree-core-go, a Go library implementing the Sidetree DID protocol core). Do not look at
or touch /repo, /verif or any directory outside {wt} (the Go module cache is read-only and fine).

Environment for every shell call: `export GOFLAGS=-mod=mod GOPROXY=off GOSUMDB=off GOTOOLCHAIN=local` (no network).
The existing test suite is `cd {wt} && go test -vet=off -count=1 ./...` (1-2 minutes).

## The property
{fields}

## Your task
Produce ONE realistic change to the library's non-test source code (the kind of regression a well-meaning refactoring,
optimisation, clean-up or "simplification" could introduce) such that:
1. the repository still compiles and the ENTIRE existing test suite still passes (run it and confirm);
2. the property above is violated;
3. the violation needs something specific to manifest - a particular multi-step sequence of operations, an unusual but
   legal input, a boundary value, a particular configuration of protocol parameters, a fault at a particular point, or two
   cooperating code sites that each look fine alone - NOT something ordinary use would expose at once;
4. the change is small (typically 1-15 changed lines), touches only non-test .go files, and looks plausible in review
   (no comments announcing the bug).
Prefer a change in a different place / of a different kind than the most obvious one-token edit of the main mechanism:
think about helper functions, call sites, ordering, boundary conditions, parameter mix-ups, aliasing, error paths.
{hint}

Also write a demonstration: a Go test file placed in the appropriate package directory of the worktree, named
zz_seed_demo_test.go, with a test `TestSeedDemo` that FAILS with your change applied and PASSES on the unchanged code.
Verify both: run it with the change (must fail); then save your change with `git diff -- . ':(exclude)*_test.go' ':(exclude)_seed' > _seed/patch.diff`,
revert it with `git apply -R _seed/patch.diff`, run the demo again (must pass), and re-apply with `git apply _seed/patch.diff`.
Do NOT use `git stash` (the stash is shared with other worktrees).

## Deliver (all inside {wt}/_seed/):
- `patch.diff`: git diff of ONLY the non-test source change (relative to the worktree HEAD; `git apply` from the root must work);
- `demo_test.go.txt`: a copy of the demonstration test file, and `demo_target.txt` with the repository-relative path where
  it must be placed (e.g. pkg/processor/zz_seed_demo_test.go);
- `meta.json`: {{"property": "{pid}", "summary": "...what the change does...", "needs": "...what is needed for the violation to
  manifest...", "ran": ["commands you ran and their outcome"]}}.
Leave the worktree with the source change applied and the demo file in place. In your final answer summarise the change,
why the suite does not notice it, and paste the patch.
"""
open(wt + "/_seed/TASK.md", "w").write(task)
os.makedirs(f"{V}/notes/seed-prompts", exist_ok=True)
open(f"{V}/notes/seed-prompts/{sid}.md", "w").write(task)
print(f"Read {wt}/_seed/TASK.md and carry out the task it describes, working only inside {wt}.")
