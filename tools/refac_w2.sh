#!/bin/sh
# evaluate the second refactoring wave (run in a vp snapshot)
bin/setup >/dev/null 2>&1
for f in refactor_inbox/w2-*.diff; do n=$(basename $f .diff); echo "=== $n"; python3 tools/refaceval.py $n $f "$(cat refactor_inbox/$n.txt | head -c 400)" 2>&1 | tail -30; done
