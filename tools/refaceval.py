#!/usr/bin/env python3
"""tools/refaceval.py <name> <patch.diff> [desc]: apply a behaviour-preserving refactoring to a scratch copy of /repo, check it
builds and the suite passes, run every property's quick check against it (4 at a time) and report any alarm.
On success stores selftest/harmless-<name>/ (patch.diff, meta.json) so that the refactoring becomes part of the corpus."""
import json, os, subprocess, sys, shutil, tempfile, glob
from concurrent.futures import ThreadPoolExecutor
V = os.path.dirname(os.path.dirname(os.path.abspath(__file__)))
name, patch = sys.argv[1], os.path.abspath(sys.argv[2])
desc = sys.argv[3] if len(sys.argv) > 3 else ""
ENV = dict(os.environ, GOFLAGS="-mod=mod", GOPROXY="off", GOSUMDB="off", GOTOOLCHAIN="local")
tmp = tempfile.mkdtemp(prefix="verif-refac-", dir="/var/tmp")
try:
    repo = tmp + "/repo"
    subprocess.run(["rsync", "-a", "--exclude", ".git", os.environ.get("VP_RUN_REPO", "/repo") + "/", repo + "/"], check=True)
    r = subprocess.run(["patch", "-p1", "-s", "-i", patch], cwd=repo, stdout=subprocess.PIPE, stderr=subprocess.STDOUT, text=True)
    if r.returncode != 0:
        print(f"REFAC {name}: patch does not apply\n{r.stdout}"); sys.exit(3)
    r = subprocess.run("go build ./... && go test -vet=off -count=1 -tags testing ./... 2>&1 | grep -v '^ok\\|no test files' | head", shell=True, cwd=repo, env=ENV, stdout=subprocess.PIPE, stderr=subprocess.STDOUT, text=True)
    if r.stdout.strip():
        print(f"REFAC {name}: suite does not pass with the patch (not a valid refactoring)\n{r.stdout[:1500]}"); sys.exit(4)
    props = sorted(os.path.basename(p)[:-5] for p in glob.glob(V + "/props/C*.json"))
    def run(pid):
        env = dict(os.environ, VERIF_REPO=repo, VERIF_OUT=f"{tmp}/out", VERIF_EVIDENCE_DIR=f"{tmp}/ev", VERIF_NO_SELFTEST="1")
        r = subprocess.run([V + "/bin/check", pid, "--tier", "quick"], env=env, stdout=subprocess.PIPE, stderr=subprocess.STDOUT, text=True)
        return pid, r.returncode, [l for l in r.stdout.splitlines() if l.startswith(("VIOLATION", "MACHINERY"))]
    alarms = {}
    with ThreadPoolExecutor(4) as ex:
        for pid, rc, lines in ex.map(run, props):
            if rc != 0 or lines:
                alarms[pid] = {"exit": rc, "lines": lines[:8]}
    if alarms:
        print(f"REFAC {name}: ALARMS {json.dumps(alarms, indent=1)[:3000]}")
        sys.exit(1)
    d = f"{V}/selftest/harmless-{name}"
    os.makedirs(d, exist_ok=True)
    shutil.copy(patch, d + "/patch.diff")
    touched = sorted({l[6:].strip() for l in open(patch) if l.startswith("+++ b/")})
    # the corpus entry is attached to the properties whose obligation sets contain functions of the touched packages
    pk = {os.path.dirname(f)[len("pkg/"):] for f in touched if f.startswith("pkg/")}
    rel = []
    for pid in props:
        fns = json.load(open(f"{V}/props/{pid}.json")).get("functions", [])
        if any(("(*" + k + ".") in f or f.startswith(k + ".") or ("(" + k + ".") in f for k in pk for f in fns):
            rel.append(pid)
    json.dump({"property": rel or props, "kind": "harmless", "note": desc, "files": touched, "expect": []}, open(d + "/meta.json", "w"), indent=1)
    print(f"REFAC {name}: quiet on all {len(props)} checks")
finally:
    shutil.rmtree(tmp, ignore_errors=True)
