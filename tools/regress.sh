#!/bin/sh
# full regression of the machinery (run in a vp snapshot): every seed against its own property, then the whole self-test corpus
bin/setup
for s in $(ls seeded_inbox); do echo "=== $s"; tools/seedeval.py seeded_inbox/$s $s 2>&1 | grep -E "detected_by_own|confirmed\"|suite_passes"; done
echo "=== SELFTEST"
python3 tools/selftest.py 2>&1 | grep -E "^ok|^SELFTEST" | cut -c1-160
