#!/bin/sh
bin/setup
python3 tools/selftest.py 2>&1 | grep -E "^ok|^SELFTEST" | cut -c1-160
