#!/bin/sh
# tools/runall.sh [tier]: every property's check on the current tree (no selftests); run before every commit of /verif so
# that the committed evidence files come from a clean run of the unchanged tree.
cd "$(dirname "$0")/.."
export GOFLAGS=-mod=mod GOPROXY=off GOSUMDB=off GOTOOLCHAIN=local VERIF_NO_SELFTEST=1
rc=0
for i in 01 02 03 04 05 06 07 08 09 10 11 12 13 14 15 16 17 18 19 20; do
  case "${1:-quick}" in quick|thorough) ;; *) echo "usage: tools/runall.sh [quick|thorough]"; exit 2;; esac
  out=$(./bin/check C$i --tier ${1:-quick} 2>&1); r=$?
  echo "$out" | grep -E "^VIOLATION|^KNOWN-FINDING" | cut -c1-300
  echo "$out" | tail -1
  [ $r -ne 0 ] && rc=1
done
git -C /repo status --short | grep -v "^??" | head -3
exit $rc
