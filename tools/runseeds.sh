#!/bin/sh
cd "$(dirname "$0")" 2>/dev/null
bin/setup
for s in C01-1 C02-1 C03-1 C04-1 C05-1 C06-1 C15-1; do echo "=== $s"; tools/seedeval.py seeded_inbox/$s $s --all 2>&1 | tail -32; done
