#!/bin/sh
# run from the /verif root (or a vp run snapshot of it): evaluates every seed in seeded_inbox/ given as arguments
bin/setup
for s in "$@"; do echo "=== $s"; tools/seedeval.py seeded_inbox/$s $s --all 2>&1 | tail -32; done
