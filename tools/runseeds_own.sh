#!/bin/sh
# run from the /verif root (or a vp run snapshot of it): re-evaluates seeds against their own property's check only
bin/setup
for s in "$@"; do echo "=== $s"; tools/seedeval.py seeded_inbox/$s $s 2>&1 | tail -14; done
