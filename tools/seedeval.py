#!/usr/bin/env python3
"""tools/seedeval.py <seed-dir> <id> [--all]: evaluate one independently produced property-breaking change.
<seed-dir> contains patch.diff, demo_test.go.txt, demo_target.txt, meta.json (as delivered by a sub-agent).
Confirms in a scratch copy of /repo: patch applies and builds; demo fails with it and passes without; the existing
suite passes with it; then runs the property's quick check (and with --all every check) against the patched copy.
On success stores /verif/seeded/<id>/{patch.diff,demo_test.go.txt,meta.json}."""
import json, os, subprocess, sys, shutil, tempfile, time, glob
V = os.path.dirname(os.path.dirname(os.path.abspath(__file__)))
sd, sid = os.path.abspath(sys.argv[1]), sys.argv[2]
run_all = "--all" in sys.argv
ENV = dict(os.environ, GOFLAGS="-mod=mod", GOPROXY="off", GOSUMDB="off", GOTOOLCHAIN="local")
def sh(cmd, cwd=None, env=ENV, timeout=1800):
    r = subprocess.run(cmd, cwd=cwd, env=env, stdout=subprocess.PIPE, stderr=subprocess.STDOUT, text=True, shell=isinstance(cmd, str), timeout=timeout)
    return r.returncode, r.stdout
meta = json.load(open(sd + "/meta.json"))
pid = meta["property"]
target = open(sd + "/demo_target.txt").read().strip()
tmp = tempfile.mkdtemp(prefix="verif-seed-", dir="/var/tmp")
res = {"id": sid, "property": pid, "summary": meta.get("summary"), "needs": meta.get("needs"), "ran": []}
try:
    repo = tmp + "/repo"
    subprocess.run(["rsync", "-a", "--exclude", ".git", os.environ.get("VP_RUN_REPO", "/repo") + "/", repo + "/"], check=True)
    rc, out = sh(["patch", "-p1", "-s", "-i", sd + "/patch.diff"], cwd=repo)
    res["patch_applies"] = rc == 0
    if rc != 0:
        print("patch does not apply:\n" + out); raise SystemExit(3)
    rc, out = sh("go build ./... 2>&1 | grep -v docutil | head", cwd=repo)
    demo_dst = os.path.join(repo, target)
    shutil.copy(sd + "/demo_test.go.txt", demo_dst)
    pkgdir = "./" + os.path.dirname(target) + "/"
    rc1, out1 = sh(["go", "test", "-vet=off", "-count=1", "-run", "TestSeedDemo", pkgdir], cwd=repo)
    res["demo_fails_with_change"] = rc1 != 0
    sh(["patch", "-p1", "-R", "-s", "-i", sd + "/patch.diff"], cwd=repo)
    rc2, out2 = sh(["go", "test", "-vet=off", "-count=1", "-run", "TestSeedDemo", pkgdir], cwd=repo)
    res["demo_passes_without_change"] = rc2 == 0
    sh(["patch", "-p1", "-s", "-i", sd + "/patch.diff"], cwd=repo)
    os.remove(demo_dst)
    rc3, out3 = sh("go test -vet=off -count=1 ./... 2>&1 | grep -v '^ok\\|no test files' | grep -v 'pkg/docutil' | grep -v '^FAIL$' | head -20", cwd=repo)
    res["suite_passes_with_change"] = out3.strip() == ""
    res["suite_output"] = out3[-1500:]
    res["ran"] += ["go test -run TestSeedDemo %s (with change: %s, without: %s)" % (pkgdir, "FAIL" if rc1 else "ok", "ok" if rc2 == 0 else "FAIL"),
                   "go test ./... with change: " + ("ok" if res["suite_passes_with_change"] else "FAILURES")]
    checks = [pid]
    if run_all:
        checks += sorted(os.path.basename(p)[:-5] for p in glob.glob(V + "/props/C*.json") if os.path.basename(p)[:-5] != pid)
    res["checks"] = {}
    for c in checks:
        env = dict(os.environ, VERIF_REPO=repo, VERIF_OUT=tmp + "/out", VERIF_EVIDENCE_DIR=tmp + "/ev")
        t0 = time.time()
        r = subprocess.run([V + "/bin/check", c, "--tier", "quick"], env=env, stdout=subprocess.PIPE, stderr=subprocess.STDOUT, text=True)
        vio = [l for l in r.stdout.splitlines() if l.startswith("VIOLATION")]
        res["checks"][c] = {"exit": r.returncode, "violations": [v[:400].replace(tmp, "<scratch>") for v in vio[:8]], "n_violations": len(vio), "wall_s": round(time.time() - t0, 1)}
        print("  check %s exit=%d violations=%d" % (c, r.returncode, len(vio)))
    res["detected_by_own_property"] = res["checks"][pid]["exit"] == 1
    res["detected_by"] = sorted(c for c, v in res["checks"].items() if v["exit"] == 1)
    ok = res["demo_fails_with_change"] and res["demo_passes_without_change"] and res["suite_passes_with_change"]
    res["confirmed"] = ok
    if ok:
        d = f"{V}/seeded/{sid}"
        os.makedirs(d, exist_ok=True)
        shutil.copy(sd + "/patch.diff", d + "/patch.diff")
        shutil.copy(sd + "/demo_test.go.txt", d + "/demo_test.go.txt")
        m = {"id": sid, "property": pid, "breaks": meta.get("summary"), "needs_to_manifest": meta.get("needs"), "demo_target": target,
             "confirmed": {"demo_fails_with_change": True, "demo_passes_without_change": True, "suite_passes_with_change": True},
             "what_i_ran": res["ran"] + ["bin/check <Cxx> --tier quick with VERIF_REPO=<scratch copy with the patch applied>"],
             "detected_by": res["detected_by"], "detected_by_own_property": res["detected_by_own_property"], "checks": res["checks"]}
        json.dump(m, open(d + "/meta.json", "w"), indent=1)
    print(json.dumps({k: res[k] for k in ("id", "property", "confirmed", "demo_fails_with_change", "demo_passes_without_change", "suite_passes_with_change", "detected_by_own_property", "detected_by")}, indent=1))
    if not res["suite_passes_with_change"]:
        print(res["suite_output"])
finally:
    shutil.rmtree(tmp, ignore_errors=True)
