#!/bin/sh
bin/setup >/dev/null 2>&1
for s in $(ls seeded_inbox); do echo "=== $s"; tools/seedeval.py seeded_inbox/$s $s 2>&1 | grep -E "detected_by_own|suite_passes"; done
