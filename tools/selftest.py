#!/usr/bin/env python3
"""tools/selftest.py [name ...] [--dir selftest|seeded]: must-fail / harmless corpus.
Each entry <dir>/<name>/ has patch.diff (git diff against /repo HEAD) and meta.json:
  {"property": "C05", "kind": "must-fail" | "harmless", "expect": ["substring of a VIOLATION line", ...]}
The patch is applied to a scratch copy of /repo's working tree (never to /repo), the property's quick check is run
against the copy, and the copy is removed. Exit 0 iff every entry behaved as expected."""
import json, os, subprocess, sys, shutil, glob, tempfile, time
V = os.path.dirname(os.path.dirname(os.path.abspath(__file__)))
args = sys.argv[1:]
base = "selftest"
if "--dir" in args:
    i = args.index("--dir"); base = args[i + 1]; del args[i:i + 2]
only_prop = None
if "--property" in args:
    i = args.index("--property"); only_prop = args[i + 1]; del args[i:i + 2]
names = args or sorted(os.path.basename(os.path.dirname(p)) for p in glob.glob(f"{V}/{base}/*/meta.json"))
scratch_root = os.environ.get("VERIF_SCRATCH", "/var/tmp")
bad = 0
for n in names:
    d = f"{V}/{base}/{n}"
    meta = json.load(open(d + "/meta.json"))
    props = meta["property"] if isinstance(meta["property"], list) else [meta["property"]]
    if only_prop:
        if only_prop not in props:
            continue
        props = [only_prop]
    tmp = tempfile.mkdtemp(prefix="verif-st-", dir=scratch_root)
    try:
        repo = tmp + "/repo"
        subprocess.run(["rsync", "-a", "--exclude", ".git", os.environ.get("VP_RUN_REPO", "/repo") + "/", repo + "/"], check=True)
        r = subprocess.run(["patch", "-p1", "-s", "-i", d + "/patch.diff"], cwd=repo, stdout=subprocess.PIPE, stderr=subprocess.STDOUT, text=True)
        if r.returncode != 0:
            print(f"SELFTEST-FAILED {n}: patch does not apply\n{r.stdout}")
            bad += 1
            continue
        for pid in props:
            env = dict(os.environ, VERIF_REPO=repo, VERIF_OUT=tmp + "/out", VERIF_EVIDENCE_DIR=tmp + "/ev")
            t0 = time.time()
            r = subprocess.run([f"{V}/bin/check", pid, "--tier", "quick"], env=env, stdout=subprocess.PIPE, stderr=subprocess.STDOUT, text=True)
            vio = [l for l in r.stdout.splitlines() if l.startswith("VIOLATION")]
            if meta.get("kind", "must-fail") == "harmless":
                ok = r.returncode == 0 and not vio
            else:
                ok = r.returncode == 1 and vio and all(any(e in l for l in vio) for e in meta.get("expect", []))
            print(("ok   " if ok else "SELFTEST-FAILED ") + f"{n} [{pid}] kind={meta.get('kind','must-fail')} exit={r.returncode} violations={len(vio)} ({time.time()-t0:.1f}s)")
            for l in vio[:6]:
                print("      " + l[:260])
            if not ok:
                bad += 1
                print(r.stdout[-1500:])
    finally:
        shutil.rmtree(tmp, ignore_errors=True)
sys.exit(2 if bad else 0)
