#!/bin/sh
# run in a vp snapshot: the third-audit mutants, then every harmless entry (false-alarm check after engine / tolerance changes)
bin/setup >/dev/null 2>&1
python3 tools/selftest.py $(ls selftest | grep "^audit3-" | tr '\n' ' ') 2>&1 | grep -E "^ok|^SELFTEST" | cut -c1-170
echo "=== HARMLESS"
python3 tools/selftest.py $(ls selftest | grep "^harmless" | tr '\n' ' ') 2>&1 | grep -E "^ok|^SELFTEST" | cut -c1-170
