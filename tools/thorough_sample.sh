#!/bin/sh
bin/setup >/dev/null 2>&1
for p in C06 C07 C05; do /usr/bin/time -f "%es" bin/check $p --tier thorough 2>&1 | grep -E "tier=|VIOLATION|SELFTEST|s$" | cut -c1-200 | tail -6; done
